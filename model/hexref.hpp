// hexref: an independent executable model of the Hex ISA, written from the architecture definition
// (docs/PDFs/hexb.pdf: the reference C simulator), plus the domain monitor of DESIGN.md §2.4.
//
// It does not include or call anything from /repo.
#pragma once
#include <cstdint>
#include <cstring>
#include <string>
#include <vector>

namespace hexref {

enum Opcode { LDAM = 0, LDBM, STAM, LDAC, LDBC, LDAP, LDAI, LDBI, STAI, BR, BRZ, BRN, UNDEF_C, OPR, PFIX, NFIX };
enum { BRB = 0, ADD = 1, SUB = 2, SVC = 3 };

static const uint32_t W_HEXSIM = 200000;       // words hexsim provides
static const uint32_t W_RTL = 1u << 19;        // words the RTL provides

enum Domain {
  D_OK = 0,
  D_UNDEF_OPCODE,    // opcode 0xC
  D_UNDEF_OPR,       // OPR with operand register > 3
  D_UNDEF_SYSCALL,   // SVC with areg > 2
  D_FETCH_OOB,       // pc >= 4W
  D_DATA_OOB,        // effective word address (or a system-call slot) >= W
  D_TARGET_OOB,      // branch / BRB / LDAP result >= 4W (only where the RTL is involved)
  D_READ_UNWRITTEN,  // load of a word that was neither loaded from the image nor written
  D_IO_WRONG_MODE,   // read on a file stream first used for writing, or the reverse: the ISA text gives
                     // each stream one direction; what a host library does afterwards is not defined
  D_NUM
};
inline const char *domainName(int d) {
  static const char *n[] = {"ok", "undef_opcode", "undef_opr", "undef_syscall", "fetch_oob", "data_oob", "target_oob", "read_unwritten", "io_wrong_mode"};
  return (d >= 0 && d < D_NUM) ? n[d] : "?";
}

// Host side of the three system calls.
struct IoEvent { uint8_t dir; int32_t stream; uint8_t byte; };   // dir: 'w' or 'r'
struct Io {
  std::string input;                 // stdin
  size_t inPos = 0;
  std::string out;                   // stdout
  // File streams: one handle per index, mode fixed by first use.
  enum { CLOSED = 0, OPEN_R, OPEN_W };
  int fileMode[8] = {0, 0, 0, 0, 0, 0, 0, 0};
  bool fileExists[8] = {false, false, false, false, false, false, false, false};  // simin<n> present
  std::string fileIn[8];             // contents of simin<n>
  size_t filePos[8] = {0, 0, 0, 0, 0, 0, 0, 0};
  std::string fileOut[8];            // bytes written to simout<n>
  bool fileOutCreated[8] = {false, false, false, false, false, false, false, false};
  std::vector<IoEvent> history;
  bool keepHistory = true;
  unsigned eofReads = 0, missingFileReads = 0, wrongModeOps = 0;

  void write(uint8_t byte, int32_t stream) {
    if (keepHistory) history.push_back({'w', stream, byte});
    if (stream < 256) { out.push_back((char)byte); return; }
    int idx = (stream >> 8) & 7;
    if (fileMode[idx] == CLOSED) { fileMode[idx] = OPEN_W; fileOutCreated[idx] = true; }
    if (fileMode[idx] == OPEN_W) fileOut[idx].push_back((char)byte);
    else wrongModeOps++;           // handle was opened for reading: the byte is lost
  }
  uint8_t read(int32_t stream) {
    uint8_t v = 255;
    if (stream < 256) {
      if (inPos < input.size()) v = (uint8_t)input[inPos++]; else eofReads++;
    } else {
      int idx = (stream >> 8) & 7;
      if (fileMode[idx] == CLOSED) fileMode[idx] = OPEN_R;
      if (fileMode[idx] == OPEN_R) {
        if (!fileExists[idx]) missingFileReads++;
        else if (filePos[idx] < fileIn[idx].size()) v = (uint8_t)fileIn[idx][filePos[idx]++];
        else eofReads++;
      } else wrongModeOps++;       // handle was opened for writing
    }
    if (keepHistory) history.push_back({'r', stream, v});
    return v;
  }
};

struct Step {                 // what the last executed instruction did (for comparison with the SUT)
  bool wrote = false;         // a memory word was stored (STAM, STAI or the READ system call)
  uint32_t waddr = 0, wdata = 0;
  bool syscall = false;
  uint32_t sysno = 0;
  bool exited = false;
  uint8_t inst = 0;
  bool taken = false;
  uint32_t maxAddr = 0;       // highest data word address the step read or wrote (0 if none)
};

class Machine {
public:
  uint32_t pc = 0, areg = 0, breg = 0, oreg = 0;
  uint32_t W;                              // memory size in words
  std::vector<uint32_t> mem;
  std::vector<uint8_t> written;            // per word: loaded or written
  bool trackWritten = false;
  // Taint mode (needs trackWritten): a word that was neither loaded nor written holds an undefined
  // value; loading it is harmless, *using* it is not (as an address, a branch condition, a jump
  // target, a system-call number or argument).  defA/defB say whether areg/breg are defined.
  bool taint = false;
  bool defA = true, defB = true;
  bool running = true;
  uint32_t exitValue = 0;
  uint64_t steps = 0;
  Io *io = nullptr;
  Step last;

  explicit Machine(uint32_t words = W_HEXSIM) : W(words), mem(words, 0) {}
  void reset() { pc = areg = breg = oreg = 0; running = true; exitValue = 0; steps = 0; last = Step(); defA = defB = true; }
  void clearMemory() { std::fill(mem.begin(), mem.end(), 0u); if (trackWritten) std::fill(written.begin(), written.end(), 0); }
  void enableWrittenTracking() { trackWritten = true; written.assign(W, 0); }
  // Load an image (little-endian words) at address 0.
  void loadImage(const std::string &bytes) {
    for (size_t k = 0; k < bytes.size() && (k >> 2) < W; k++) {
      uint32_t &w = mem[k >> 2];
      unsigned sh = (unsigned)(k & 3) * 8;
      w = (w & ~(0xFFu << sh)) | ((uint32_t)(uint8_t)bytes[k] << sh);
      if (trackWritten) written[k >> 2] = 1;
    }
  }
  uint8_t byteAt(uint32_t addr) const { return (uint8_t)(mem[addr >> 2] >> ((addr & 3) * 8)); }

  // Classify the next step without executing it.
  Domain classifyNext(bool rtlTargets, bool needWritten) const {
    if ((pc >> 2) >= W) return D_FETCH_OOB;
    // Executing a word that was neither loaded nor written (running off the end of the image) is a
    // use of an undefined value like any other.
    if (needWritten && trackWritten && !written[pc >> 2]) return D_READ_UNWRITTEN;
    uint8_t inst = byteAt(pc);
    uint32_t npc = pc + 1;
    uint32_t o = oreg | (inst & 15);
    const bool tm = taint && trackWritten;
    auto rd = [&](uint32_t a) -> Domain {
      if (a >= W) return D_DATA_OOB;
      if (needWritten && !tm && trackWritten && !written[a]) return D_READ_UNWRITTEN;
      return D_OK;
    };
    // In taint mode: the value in word a is about to be *used*.
    auto used = [&](uint32_t a) -> Domain {
      if (a >= W) return D_DATA_OOB;
      if (needWritten && tm && !written[a]) return D_READ_UNWRITTEN;
      return rd(a);
    };
    auto need = [&](bool def) -> Domain { return (needWritten && tm && !def) ? D_READ_UNWRITTEN : D_OK; };
    auto wr = [&](uint32_t a) -> Domain { return a >= W ? D_DATA_OOB : D_OK; };
    auto tgt = [&](uint32_t t) -> Domain { return (rtlTargets && (t >> 2) >= W) ? D_TARGET_OOB : D_OK; };
    switch (inst >> 4) {
      case LDAM: case LDBM: return rd(o);
      case STAM: return wr(o);
      case LDAC: case LDBC: return D_OK;
      case LDAP: return tgt(npc + o);
      case LDAI: { Domain d = need(defA); return d != D_OK ? d : rd(areg + o); }
      case LDBI: { Domain d = need(defB); return d != D_OK ? d : rd(breg + o); }
      case STAI: { Domain d = need(defB); return d != D_OK ? d : wr(breg + o); }
      case BR: return tgt(npc + o);
      case BRZ: { Domain d = need(defA); if (d != D_OK) return d; return areg == 0 ? tgt(npc + o) : D_OK; }
      case BRN: { Domain d = need(defA); if (d != D_OK) return d; return (int32_t)areg < 0 ? tgt(npc + o) : D_OK; }
      case PFIX: case NFIX: return D_OK;
      case OPR:
        switch (o) {
          case BRB: { Domain d = need(defB); return d != D_OK ? d : tgt(breg); }
          case ADD: case SUB: return D_OK;
          case SVC: {
            Domain d = need(defA);
            if (d != D_OK) return d;
            if (areg > 2) return D_UNDEF_SYSCALL;
            d = used(1);
            if (d != D_OK) return d;
            uint32_t sp = mem[1];
            if (areg == 0) return used(sp + 2);
            if (areg == 1) {
              d = used(sp + 2); if (d != D_OK) return d;
              d = used(sp + 3); if (d != D_OK) return d;
              int32_t s = (int32_t)mem[sp + 3];
              if (io && s >= 256 && io->fileMode[(s >> 8) & 7] == Io::OPEN_R) return D_IO_WRONG_MODE;
              return D_OK;
            }
            d = used(sp + 2); if (d != D_OK) return d;
            d = wr(sp + 1); if (d != D_OK) return d;
            {
              int32_t s = (int32_t)mem[sp + 2];
              if (io && s >= 256 && io->fileMode[(s >> 8) & 7] == Io::OPEN_W) return D_IO_WRONG_MODE;
            }
            return D_OK;
          }
          default: return D_UNDEF_OPR;
        }
      default: return D_UNDEF_OPCODE;
    }
  }

  void store(uint32_t a, uint32_t v, bool defined = true) {
    mem[a] = v;
    if (trackWritten) written[a] = (taint ? defined : true) ? 1 : 0;
    last.wrote = true; last.waddr = a; last.wdata = v;
    if (a > last.maxAddr) last.maxAddr = a;
  }

  // Execute one instruction.  The caller has classified it as inside the domain.
  void step() {
    last = Step();
    uint8_t inst = byteAt(pc);
    last.inst = inst;
    pc = pc + 1;
    oreg = oreg | (inst & 15);
    switch (inst >> 4) {
      case LDAM: last.maxAddr = oreg; if (trackWritten) defA = written[oreg]; areg = mem[oreg]; oreg = 0; break;
      case LDBM: last.maxAddr = oreg; if (trackWritten) defB = written[oreg]; breg = mem[oreg]; oreg = 0; break;
      case STAM: store(oreg, areg, defA); oreg = 0; break;
      case LDAC: areg = oreg; defA = true; oreg = 0; break;
      case LDBC: breg = oreg; defB = true; oreg = 0; break;
      case LDAP: areg = pc + oreg; defA = true; oreg = 0; break;
      case LDAI: last.maxAddr = areg + oreg; if (trackWritten) defA = written[areg + oreg]; areg = mem[areg + oreg]; oreg = 0; break;
      case LDBI: last.maxAddr = breg + oreg; if (trackWritten) defB = written[breg + oreg]; breg = mem[breg + oreg]; oreg = 0; break;
      case STAI: store(breg + oreg, areg, defA); oreg = 0; break;
      case BR: pc = pc + oreg; oreg = 0; last.taken = true; break;
      case BRZ: if (areg == 0) { pc = pc + oreg; last.taken = true; } oreg = 0; break;
      case BRN: if ((int32_t)areg < 0) { pc = pc + oreg; last.taken = true; } oreg = 0; break;
      case PFIX: oreg = oreg << 4; break;
      case NFIX: oreg = 0xFFFFFF00u | (oreg << 4); break;
      case OPR:
        switch (oreg) {
          case BRB: pc = breg; last.taken = true; break;
          case ADD: areg = areg + breg; defA = defA && defB; break;
          case SUB: areg = areg - breg; defA = defA && defB; break;
          case SVC: {
            uint32_t sp = mem[1];
            last.syscall = true; last.sysno = areg;
            last.maxAddr = sp + (areg == 1 ? 3 : 2);
            if (areg == 0) { exitValue = mem[sp + 2]; running = false; last.exited = true; }
            else if (areg == 1) { io->write((uint8_t)(mem[sp + 2] & 0xFF), (int32_t)mem[sp + 3]); }
            else { uint32_t v = io->read((int32_t)mem[sp + 2]); store(sp + 1, v & 0xFF); }
            break;
          }
        }
        oreg = 0;
        break;
      default: break;
    }
    steps++;
  }
};

} // namespace hexref
