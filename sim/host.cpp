#include "host.hpp"
#include "prng.hpp"

#include <algorithm>
#include <cerrno>
#include <cstdio>
#include <cstdlib>
#include <cstring>
#include <dlfcn.h>
#include <fcntl.h>
#include <new>
#include <sched.h>
#include <sys/mman.h>
#include <sys/stat.h>
#include <unistd.h>
#include <alloca.h>
#include <malloc.h>
#include <exception>
#include <sys/personality.h>
#include <ucontext.h>

#if defined(__SANITIZE_ADDRESS__)
#define SIM_SANITIZED 1
#else
#define SIM_SANITIZED 0
#endif

namespace sim {

EventLog g_log;
thread_local int g_harnessDepth = 0;
bool g_tainted = false;

//=============================================================================================
// Event log
//=============================================================================================
void EventLog::ev(const char *kind, uint64_t a, uint64_t b, uint64_t c) {
  seq++;
  uint64_t k = 0;
  for (const char *p = kind; *p; p++) k = k * 131 + (unsigned char)*p;
  mixIn(k); mixIn(seq); mixIn(a); mixIn(b); mixIn(c);
  if (keep && lines.size() < 20000) {
    HarnessScope hs;
    char buf[160];
    std::snprintf(buf, sizeof buf, "%llu %s %llu %llu %llu", (unsigned long long)seq, kind,
                  (unsigned long long)a, (unsigned long long)b, (unsigned long long)c);
    lines.emplace_back(buf);
  }
}
void EventLog::evs(const char *kind, const std::string &s, uint64_t a) {
  seq++;
  uint64_t k = 0;
  for (const char *p = kind; *p; p++) k = k * 131 + (unsigned char)*p;
  mixIn(k); mixIn(seq); mixIn(hashStr(s)); mixIn(a);
  if (keep && lines.size() < 20000) {
    HarnessScope hs;
    std::string t = std::to_string(seq) + " " + kind + " ";
    for (unsigned char ch : s.substr(0, 120)) t += (ch >= 0x20 && ch < 0x7f) ? (char)ch : '.';
    t += " " + std::to_string(a);
    lines.push_back(t);
  }
}
std::string EventLog::hashHex() const {
  char buf[40];
  std::snprintf(buf, sizeof buf, "%016llx%016llx", (unsigned long long)h1, (unsigned long long)h2);
  return buf;
}

//=============================================================================================
// Streams
//=============================================================================================
SimInBuf::int_type SimInBuf::underflow() {
  HarnessScope hs;
  if (fs::stdinClosed()) {
    // Standard input was closed when the process started: the C library reads descriptor 0 a block
    // at a time, whatever file the program has meanwhile opened there.
    char buf[4096];
    long n = fs::readFd0(buf, sizeof buf);
    if (n > 0) {
      block.assign(buf, (size_t)n);
      fetched += (size_t)n;
      setg(&block[0], &block[0], &block[0] + n);
      g_log.ev("in_fd0_block", (uint64_t)id, (uint64_t)n);
      return traits_type::to_int_type(block[0]);
    }
    setg(&cur, &cur + 1, &cur + 1);
    eofReads++;
    g_log.ev(n < 0 ? "in_ebadf" : "in_eof", (uint64_t)id);
    return traits_type::eof();
  }
  if (blockMode && fetched < data.size()) {
    size_t n = std::min<size_t>(4096, data.size() - fetched);
    block.assign(data, fetched, n);
    fetched += n;
    setg(&block[0], &block[0], &block[0] + n);
    g_log.ev("in_block", (uint64_t)id, n);
    return traits_type::to_int_type(block[0]);
  }
  if (fetched < data.size()) {
    cur = data[fetched++];
    setg(&cur, &cur, &cur + 1);
    g_log.ev("in", (uint64_t)id, (unsigned char)cur);
    return traits_type::to_int_type(cur);
  }
  // Whatever was in the get area has been consumed.
  setg(&cur, &cur + 1, &cur + 1);
  eofReads++;
  if (!eofReported) { eofReported = true; }
  g_log.ev("in_eof", (uint64_t)id);
  return traits_type::eof();
}

SimOutBuf::int_type SimOutBuf::overflow(int_type c) {
  if (traits_type::eq_int_type(c, traits_type::eof())) return traits_type::not_eof(c);
  HarnessScope hs;
  g_log.ev("out", (uint64_t)id, (unsigned char)traits_type::to_char_type(c));
  if (data.size() < cap) data.push_back(traits_type::to_char_type(c)); else overflowed = true;
  return c;
}
std::streamsize SimOutBuf::xsputn(const char *s, std::streamsize n) {
  for (std::streamsize k = 0; k < n; k++) overflow(traits_type::to_int_type(s[k]));
  return n;
}

StdStreams *g_stdStreams = nullptr;

void StdStreams::attach(const std::string &input) {
  HarnessScope hs;
  g_stdStreams = this;
  in.load(input);
  out.clear();
  err.clear();
  std::cin.clear(); std::cout.clear(); std::cerr.clear();
  if (!attached) {
    oldIn = std::cin.rdbuf(&in);
    oldOut = std::cout.rdbuf(&out);
    oldErr = std::cerr.rdbuf(&err);
    attached = true;
  }
}
void StdStreams::detach() {
  if (g_stdStreams == this) g_stdStreams = nullptr;
  if (!attached) return;
  std::cin.rdbuf(oldIn); std::cout.rdbuf(oldOut); std::cerr.rdbuf(oldErr);
  std::cin.clear(); std::cout.clear(); std::cerr.clear();
  attached = false;
}

//=============================================================================================
// File system
//=============================================================================================
namespace fs {
Counters counters;
namespace {
struct Ent { int fd; };
std::map<std::string, Ent> *g_files;
struct Fault { int err; bool writesOnly; };
std::map<std::string, Fault> *g_faults;
std::map<std::string, Ent> &files() { if (!g_files) { HarnessScope hs; g_files = new std::map<std::string, Ent>(); } return *g_files; }
struct PipeEnt { int rfd = -1; std::string got; };
std::map<std::string, PipeEnt> &pipes() { static auto *m = new std::map<std::string, PipeEnt>(); return *m; }
void pump(PipeEnt &e) {
  if (e.rfd < 0) return;
  char buf[65536];
  for (;;) { ssize_t n = ::read(e.rfd, buf, sizeof buf); if (n > 0) e.got.append(buf, (size_t)n); else break; }
}
std::map<std::string, Fault> &faults() { if (!g_faults) { HarnessScope hs; g_faults = new std::map<std::string, Fault>(); } return *g_faults; }

std::string norm(const char *p) {
  std::string s(p);
  while (s.compare(0, 2, "./") == 0) s.erase(0, 2);
  if (s.compare(0, 5, "/sim/") == 0) s.erase(0, 5);
  return s;
}
bool simulated(const char *p) {
  if (!p || !*p) return false;
  if (p[0] != '/') return true;
  return std::strncmp(p, "/sim/", 5) == 0;
}
// A path component longer than NAME_MAX (255) cannot be created or looked up, as on the host's file systems.
bool nameTooLong(const std::string &k) {
  size_t start = 0;
  for (;;) { size_t e = k.find('/', start); size_t len = (e == std::string::npos ? k.size() : e) - start; if (len > 255) return true; if (e == std::string::npos) return false; start = e + 1; }
}
int newMemfd() {
  int fd = memfd_create("simfile", MFD_CLOEXEC);
  if (fd < 0) { perror("memfd_create"); abort(); }
  return fd;
}
} // namespace

void reset() {
  HarnessScope hs;
  for (auto &kv : files()) close(kv.second.fd);
  files().clear();
  for (auto &kv : pipes()) if (kv.second.rfd >= 0) close(kv.second.rfd);
  pipes().clear();
  faults().clear();
  counters = Counters();
}
void put(const std::string &path, const std::string &bytes) {
  HarnessScope hs;
  std::string k = norm(path.c_str());
  auto it = files().find(k);
  int fd;
  if (it == files().end()) { fd = newMemfd(); files()[k] = Ent{fd}; }
  else { fd = it->second.fd; if (ftruncate(fd, 0) != 0) abort(); }
  size_t off = 0;
  while (off < bytes.size()) {
    ssize_t w = pwrite(fd, bytes.data() + off, bytes.size() - off, (off_t)off);
    if (w <= 0) abort();
    off += (size_t)w;
  }
}
bool exists(const std::string &path) { HarnessScope hs; return files().count(norm(path.c_str())) != 0; }
std::string get(const std::string &path) {
  HarnessScope hs;
  auto it = files().find(norm(path.c_str()));
  if (it == files().end()) return std::string();
  struct stat st;
  if (fstat(it->second.fd, &st) != 0) abort();
  std::string r((size_t)st.st_size, '\0');
  size_t off = 0;
  while (off < r.size()) {
    ssize_t n = pread(it->second.fd, &r[off], r.size() - off, (off_t)off);
    if (n <= 0) break;
    off += (size_t)n;
  }
  return r;
}
void remove(const std::string &path) {
  HarnessScope hs;
  auto it = files().find(norm(path.c_str()));
  if (it != files().end()) { close(it->second.fd); files().erase(it); }
}
std::vector<std::string> list() {
  HarnessScope hs;
  std::vector<std::string> r;
  for (auto &kv : files()) r.push_back(kv.first);
  return r;
}
std::map<std::string, std::string> snapshot() {
  HarnessScope hs;
  std::map<std::string, std::string> r;
  for (auto &kv : files()) r[kv.first] = get(kv.first);
  return r;
}
void failOpen(const std::string &path, int err, bool writesOnly) { HarnessScope hs; faults()[norm(path.c_str())] = Fault{err, writesOnly}; }
void clearFaults() { HarnessScope hs; faults().clear(); }

namespace {
bool g_stdinClosed = false;
FILE *g_fd0File = nullptr; int g_fd0Real = -1; bool g_fd0Readable = false;
}
void setStdinClosed(bool closed) { g_stdinClosed = closed; g_fd0File = nullptr; g_fd0Real = -1; g_fd0Readable = false; }
bool stdinClosed() { return g_stdinClosed; }
long readFd0(char *buf, size_t n) {
  if (!g_fd0File || !g_fd0Readable) return -1;
  counters.fd0Reads++;
  ssize_t r = ::read(g_fd0Real, buf, n);
  return r < 0 ? -1 : (long)r;
}
void noteClose(FILE *fp) { if (fp && fp == g_fd0File) { g_fd0File = nullptr; g_fd0Real = -1; g_fd0Readable = false; g_log.evs("fd0_released", ""); } }

void makePipe(const std::string &path) { HarnessScope hs; pipes()[norm(path.c_str())] = PipeEnt(); }
bool isPipe(const std::string &path) { HarnessScope hs; return pipes().count(norm(path.c_str())) != 0; }
std::string drainPipe(const std::string &path) {
  HarnessScope hs;
  auto it = pipes().find(norm(path.c_str()));
  if (it == pipes().end()) return std::string();
  pump(it->second);
  return it->second.got;
}

static FILE *simOpen(const char *path, const char *mode) {
  HarnessScope hs;
  std::string k = norm(path);
  {
    auto pi = pipes().find(k);
    if (pi != pipes().end()) {
      bool writing = std::strchr(mode, 'w') || std::strchr(mode, 'a') || std::strchr(mode, '+');
      if (!writing || pi->second.rfd >= 0) { errno = ENXIO; g_log.evs("open_pipe_refused", k); return nullptr; }
      int p[2];
      if (pipe2(p, O_CLOEXEC) != 0) { perror("simfs pipe"); abort(); }
      fcntl(p[1], F_SETPIPE_SZ, 1 << 20);
      fcntl(p[0], F_SETFL, O_NONBLOCK);
      pi->second.rfd = p[0];
      g_log.evs("open_pipe", k);
      FILE *fp = fdopen(p[1], "w");
      if (!fp) { perror("simfs fdopen pipe"); abort(); }
      return fp;
    }
  }
  bool rd = false, wr = false, app = false, plus = false, trunc = false, create = false;
  for (const char *m = mode; *m; m++) {
    switch (*m) {
      case 'r': rd = true; break;
      case 'w': wr = true; trunc = true; create = true; break;
      case 'a': wr = true; app = true; create = true; break;
      case '+': plus = true; break;
      default: break;
    }
  }
  counters.opens++;
  if (nameTooLong(k)) { counters.openFail++; g_log.evs("open_enametoolong", k.substr(0, 24), (uint64_t)k.size()); errno = ENAMETOOLONG; return nullptr; }
  auto f = faults().find(k);
  if (f != faults().end() && (!f->second.writesOnly || wr || plus)) {
    counters.openInjectedFail++;
    g_log.evs("open_injected_fail", k, (uint64_t)f->second.err);
    errno = f->second.err;
    return nullptr;
  }
  auto it = files().find(k);
  if (it == files().end()) {
    if (!create) {
      counters.openFail++;
      g_log.evs("open_enoent", k);
      errno = ENOENT;
      return nullptr;
    }
    files()[k] = Ent{newMemfd()};
    it = files().find(k);
    counters.creates++;
    g_log.evs("create", k);
  } else if (trunc) {
    counters.truncates++;
    g_log.evs("truncate", k);
  }
  int flags = (rd && !plus) ? O_RDONLY : (plus ? O_RDWR : O_WRONLY);
  if (trunc) flags |= O_TRUNC;
  if (app) flags |= O_APPEND;
  char link[64];
  std::snprintf(link, sizeof link, "/proc/self/fd/%d", it->second.fd);
  int nfd = open(link, flags | O_CLOEXEC);
  if (nfd < 0) { perror("simfs reopen"); abort(); }
  g_log.evs("open", k, (uint64_t)flags);
  FILE *fp = fdopen(nfd, mode);
  if (!fp) { perror("simfs fdopen"); abort(); }
  if (g_stdinClosed && !g_fd0File && g_harnessDepth == 1) {     // the lowest free descriptor is 0 (depth 1: called from the code under test)
    g_fd0File = fp; g_fd0Real = nfd; g_fd0Readable = (rd || plus);
    counters.fd0Taken++;
    g_log.evs("fd0_taken_by", k, (uint64_t)g_fd0Readable);
  }
  return fp;
}
int simRename(const char *from, const char *to) {
  HarnessScope hs;
  std::string a = norm(from), b = norm(to);
  if (nameTooLong(a) || nameTooLong(b)) { g_log.evs("rename_enametoolong", a.substr(0, 24), (uint64_t)b.size()); errno = ENAMETOOLONG; return -1; }
  auto it = files().find(a);
  if (it == files().end()) { g_log.evs("rename_enoent", a); errno = ENOENT; return -1; }
  auto f = faults().find(b);
  if (f != faults().end()) { g_log.evs("rename_injected_fail", b, (uint64_t)f->second.err); errno = f->second.err; return -1; }
  if (pipes().count(b)) { g_log.evs("rename_over_pipe", b); pipes().erase(b); }
  if (a == b) return 0;
  Ent e = it->second;
  files().erase(it);
  auto old = files().find(b);
  if (old != files().end()) { close(old->second.fd); files().erase(old); }
  files()[b] = e;
  g_log.evs("rename", a + " -> " + b);
  return 0;
}
int simUnlink(const char *path) {
  HarnessScope hs;
  std::string k = norm(path);
  auto it = files().find(k);
  if (it == files().end()) { g_log.evs("unlink_enoent", k); errno = nameTooLong(k) ? ENAMETOOLONG : ENOENT; return -1; }
  close(it->second.fd); files().erase(it);
  g_log.evs("unlink", k);
  return 0;
}
// stat of a simulated path: a regular file of its current size, a FIFO, or ENOENT.
int simStat(const char *path, struct stat *st) {
  HarnessScope hs;
  std::string k = norm(path);
  if (nameTooLong(k)) { errno = ENAMETOOLONG; return -1; }
  if (pipes().count(k)) { std::memset(st, 0, sizeof *st); st->st_mode = S_IFIFO | 0644; st->st_nlink = 1; g_log.evs("stat_fifo", k); return 0; }
  auto it = files().find(k);
  if (it == files().end()) { g_log.evs("stat_enoent", k); errno = ENOENT; return -1; }
  struct stat real;
  if (fstat(it->second.fd, &real) != 0) abort();
  std::memset(st, 0, sizeof *st);
  st->st_mode = S_IFREG | 0644; st->st_nlink = 1; st->st_size = real.st_size; st->st_blksize = 4096; st->st_blocks = (real.st_size + 511) / 512;
  g_log.evs("stat", k, (uint64_t)real.st_size);
  return 0;
}
} // namespace fs

} // namespace sim

extern "C" {
static_assert(sizeof(struct stat) == sizeof(struct stat64), "stat layouts");
#define SIM_STAT_WRAPPER(NAME, ST) \
  int NAME(const char *path, struct ST *st) { \
    if (sim::fs::simulated(path) && sim::g_stdStreams) return sim::fs::simStat(path, (struct stat *)st); \
    typedef int (*fn_t)(const char *, struct ST *); \
    static fn_t real = (fn_t)dlsym(RTLD_NEXT, #NAME); \
    return real(path, st); \
  }
SIM_STAT_WRAPPER(stat, stat)
SIM_STAT_WRAPPER(lstat, stat)
SIM_STAT_WRAPPER(stat64, stat64)
SIM_STAT_WRAPPER(lstat64, stat64)
int access(const char *path, int mode) {
  if (sim::fs::simulated(path) && sim::g_stdStreams) { struct stat st; return sim::fs::simStat(path, &st); }
  typedef int (*fn_t)(const char *, int);
  static fn_t real = (fn_t)dlsym(RTLD_NEXT, "access");
  return real(path, mode);
}
int rename(const char *from, const char *to) {
  if (sim::fs::simulated(from) && sim::fs::simulated(to)) return sim::fs::simRename(from, to);
  typedef int (*rename_fn)(const char *, const char *);
  static rename_fn real = (rename_fn)dlsym(RTLD_NEXT, "rename");
  return real(from, to);
}
int unlink(const char *path) {
  if (sim::fs::simulated(path)) return sim::fs::simUnlink(path);
  typedef int (*unlink_fn)(const char *);
  static unlink_fn real = (unlink_fn)dlsym(RTLD_NEXT, "unlink");
  return real(path);
}
int remove(const char *path) {
  if (sim::fs::simulated(path)) return sim::fs::simUnlink(path);
  typedef int (*remove_fn)(const char *);
  static remove_fn real = (remove_fn)dlsym(RTLD_NEXT, "remove");
  return real(path);
}

typedef FILE *(*fopen_fn)(const char *, const char *);
FILE *fopen64(const char *path, const char *mode) {
  if (sim::fs::simulated(path)) return sim::fs::simOpen(path, mode);
  static fopen_fn real = (fopen_fn)dlsym(RTLD_NEXT, "fopen64");
  return real(path, mode);
}
FILE *fopen(const char *path, const char *mode) {
  if (sim::fs::simulated(path)) return sim::fs::simOpen(path, mode);
  static fopen_fn real = (fopen_fn)dlsym(RTLD_NEXT, "fopen");
  return real(path, mode);
}
int fclose(FILE *fp) {
  typedef int (*fclose_fn)(FILE *);
  static fclose_fn real = (fclose_fn)dlsym(RTLD_NEXT, "fclose");
  sim::fs::noteClose(fp);
  return real(fp);
}
int mkdir(const char *path, mode_t mode) {
  if (sim::fs::simulated(path)) { sim::g_log.evs("mkdir", path); return 0; }
  typedef int (*mkdir_fn)(const char *, mode_t);
  static mkdir_fn real = (mkdir_fn)dlsym(RTLD_NEXT, "mkdir");
  return real(path, mode);
}
}

//=============================================================================================
// std::ios_base::sync_with_stdio: defined here, it pre-empts libstdc++'s, which would throw away
// the simulated buffers of cin/cout/cerr and attach the real descriptors.  The simulated meaning:
// cin takes its input a block at a time from then on (see SimInBuf::blockMode).
//=============================================================================================
bool std::ios_base::sync_with_stdio(bool sync) {
  static bool state = true;
  if (sim::g_stdStreams && sim::g_harnessDepth == 0) {
    sim::g_log.ev("sync_with_stdio", sync ? 1 : 0);
    bool prev = !sim::g_stdStreams->in.blockMode;
    if (!sync) sim::g_stdStreams->in.blockMode = true;      // switching back is not possible once I/O has happened
    return prev;
  }
  bool prev = state;
  state = sync;
  return prev;
}

//=============================================================================================
// Clock and pid
//=============================================================================================
namespace sim {
namespace simclock {
namespace {
bool g_active = false;
uint64_t g_base = 0, g_ticks = 0, g_reads = 0;
int g_pid = 0;
}
void activate(uint64_t baseSeconds, int pid) { g_active = true; g_base = baseSeconds; g_ticks = 0; g_reads = 0; g_pid = pid; }
void deactivate() { g_active = false; }
uint64_t readings() { return g_reads; }
static bool on() { return g_active && g_harnessDepth == 0; }
static void now(uint64_t &sec, uint64_t &nsec) {
  g_reads++;
  uint64_t us = g_ticks++;
  sec = g_base + us / 1000000; nsec = (us % 1000000) * 1000;
  g_log.ev("clock_read", sec, nsec);
}
} // namespace simclock
} // namespace sim

#include <sys/time.h>
#include <time.h>
extern "C" {
time_t time(time_t *t) {
  if (sim::simclock::on()) { uint64_t s, n; sim::simclock::now(s, n); if (t) *t = (time_t)s; return (time_t)s; }
  typedef time_t (*fn)(time_t *);
  static fn real = (fn)dlsym(RTLD_NEXT, "time");
  return real(t);
}
int gettimeofday(struct timeval *tv, void *tz) {
  if (sim::simclock::on()) { uint64_t s, n; sim::simclock::now(s, n); if (tv) { tv->tv_sec = (time_t)s; tv->tv_usec = (suseconds_t)(n / 1000); } return 0; }
  typedef int (*fn)(struct timeval *, void *);
  static fn real = (fn)dlsym(RTLD_NEXT, "gettimeofday");
  return real(tv, tz);
}
int clock_gettime(clockid_t id, struct timespec *ts) {
  if (sim::simclock::on()) { uint64_t s, n; sim::simclock::now(s, n); if (ts) { ts->tv_sec = (time_t)s; ts->tv_nsec = (long)n; } return 0; }
  typedef int (*fn)(clockid_t, struct timespec *);
  static fn real = (fn)dlsym(RTLD_NEXT, "clock_gettime");
  return real(id, ts);
}
pid_t getpid(void) {
  if (sim::simclock::on()) { sim::g_log.ev("getpid"); return (pid_t)sim::simclock::g_pid; }
  typedef pid_t (*fn)(void);
  static fn real = (fn)dlsym(RTLD_NEXT, "getpid");
  return real();
}
}

//=============================================================================================
// Heap arena
//=============================================================================================
namespace sim {
namespace heap {
Counters counters;

const char *modeName(int m) {
  static const char *n[] = {"passthrough", "zero", "ones", "prng", "pointerish", "stale"};
  return (m >= 0 && m < NUM_MODES) ? n[m] : "?";
}
int modeFromName(const std::string &s) {
  for (int m = 0; m < NUM_MODES; m++) if (s == modeName(m)) return m;
  return PASSTHROUGH;
}
bool available() { return !SIM_SANITIZED; }

namespace {
const uintptr_t ARENA_BASE = 0x6f0000000000ull;
const size_t SLOT_SIZE = 64ull << 20;
const int NUM_SLOTS = 8;
const uint32_t MAGIC = 0x51A7BEEFu;

struct Header {       // 16 bytes, directly before the user pointer
  uint32_t magic;
  uint32_t epoch;
  uint32_t size16;    // user size in 16-byte units
  uint32_t slot;
};
static_assert(sizeof(Header) == 16, "header size");

char *g_arena = nullptr;
bool g_active = false;
Config g_cfg;
uint32_t g_epoch = 0;
int g_slot = 0;
size_t g_bump = 0;                 // offset in the current slot
uint64_t g_ordinal = 0;            // repo-scope allocations in this epoch
uint64_t g_live[NUM_SLOTS];        // live blocks per slot
size_t g_high[NUM_SLOTS];          // high-water mark of each slot (where a later operation may continue when nothing is free)
std::vector<std::pair<uint32_t, char *>> *g_slotFreed;   // [NUM_SLOTS] blocks freed by the last operation in a slot that still holds live ones
uint32_t g_slotEpoch[NUM_SLOTS];
// Free lists of the current epoch: size16 -> blocks.  Sizes above the table go to a map-free list.
const uint32_t SMALL = 512;        // size16 up to 8 kB in direct table
std::vector<char *> *g_free;       // [SMALL+1]
std::vector<std::pair<uint32_t, char *>> *g_freeBig;
Rng g_padRng(1), g_recRng(1);

void ensureArena() {
  if (g_arena) return;
  void *p = mmap((void *)ARENA_BASE, SLOT_SIZE * NUM_SLOTS, PROT_READ | PROT_WRITE,
                 MAP_PRIVATE | MAP_ANONYMOUS | MAP_NORESERVE | MAP_FIXED_NOREPLACE, -1, 0);
  if (p == MAP_FAILED) {
    p = mmap(nullptr, SLOT_SIZE * NUM_SLOTS, PROT_READ | PROT_WRITE, MAP_PRIVATE | MAP_ANONYMOUS | MAP_NORESERVE, -1, 0);
    if (p == MAP_FAILED) { perror("arena mmap"); abort(); }
  }
  g_arena = (char *)p;
  g_harnessDepth++;
  g_free = new std::vector<char *>[SMALL + 1];
  g_slotFreed = new std::vector<std::pair<uint32_t, char *>>[NUM_SLOTS];
  g_freeBig = new std::vector<std::pair<uint32_t, char *>>();
  g_harnessDepth--;
}
inline bool inArena(const void *p) {
  return g_arena && (const char *)p >= g_arena && (const char *)p < g_arena + SLOT_SIZE * NUM_SLOTS;
}
void fill(char *p, size_t n, uint64_t ordinal) {
  switch (g_cfg.mode) {
    case ZERO: std::memset(p, 0, n); break;
    case ONES: std::memset(p, 0xFF, n); break;
    case POINTERISH: {
      uint64_t s = mix64(g_cfg.fillSeed, ordinal);
      for (size_t k = 0; k + 8 <= n; k += 8) {
        uint64_t v = ARENA_BASE + (splitmix64(s) % (SLOT_SIZE * NUM_SLOTS) & ~7ull);
        std::memcpy(p + k, &v, 8);
      }
      for (size_t k = n & ~7ull; k < n; k++) p[k] = (char)0x6f;
      break;
    }
    case PRNG:
    case STALE:
    default: {
      uint64_t s = mix64(g_cfg.fillSeed, ordinal);
      size_t k = 0;
      for (; k + 8 <= n; k += 8) { uint64_t v = splitmix64(s); std::memcpy(p + k, &v, 8); }
      if (k < n) { uint64_t v = splitmix64(s); std::memcpy(p + k, &v, n - k); }
      break;
    }
  }
}
} // namespace

void saveCarry(Carry &out) {
  HarnessScope hs;
  out = Carry();
  if (!g_arena || g_slot < 0) return;
  out.valid = true; out.slot = g_slot; out.bump = g_bump;
  for (uint32_t k = 0; k <= SMALL; k++) for (char *b : g_free[k]) out.freed.emplace_back(k, b);
  for (auto &e : *g_freeBig) out.freed.push_back(e);
}
void begin(const Config &c, const Carry *carry) {
  if (!available() || c.mode == PASSTHROUGH) { g_active = false; return; }
  ensureArena();
  g_harnessDepth++;
  g_cfg = c;
  g_epoch++;
  // The lowest slot with no live block from an earlier epoch.
  g_slot = -1;
  for (int s = 0; s < NUM_SLOTS; s++) if (g_live[s] == 0) { g_slot = s; g_high[s] = 0; break; }
  size_t startAt = 0;
  if (g_slot < 0) {
    // Code under test that never frees something (a static container that grows with every call) leaves
    // a live block in every slot sooner or later.  Then the operation continues behind the high-water
    // mark of the emptiest slot: nothing live is overlaid, and addresses stay a function of the
    // sequence of operations in this process (which a replay repeats), not of the C library's heap.
    int best = -1;
    for (int s = 0; s < NUM_SLOTS; s++) if (g_high[s] + (16u << 20) < SLOT_SIZE && (best < 0 || g_high[s] < g_high[best])) best = s;
    if (best >= 0) { g_slot = best; startAt = (g_high[best] + 4095) & ~(size_t)4095; }
  }
  bool continued = startAt != 0;
  if (g_slot < 0) { g_active = false; counters.overflowToMalloc++; g_harnessDepth--; return; }
  g_slotEpoch[g_slot] = g_epoch;
  g_bump = startAt + (size_t)(c.baseShift % 4096) * 16;
  g_ordinal = 0;
  for (uint32_t k = 0; k <= SMALL; k++) g_free[k].clear();
  g_freeBig->clear();
  if (continued) {
    // Like a long-lived heap: what the previous operation in this slot freed is handed out again first.
    for (auto &e : g_slotFreed[g_slot]) { if (e.first <= SMALL) g_free[e.first].push_back(e.second); else g_freeBig->push_back(e); }
    if (g_cfg.mode == STALE) g_cfg.mode = PRNG;
  }
  if (carry && carry->valid && carry->slot == g_slot) {
    // Continue where the earlier operation stopped: fresh blocks follow its last one, and the blocks
    // it freed are recycled first.
    g_bump = std::max(g_bump, carry->bump);
    for (auto &e : carry->freed) { if (e.first <= SMALL) g_free[e.first].push_back(e.second); else g_freeBig->push_back(e); }
    // What those blocks hold now is not part of the plan (a reference run may have used the region in
    // between): they are always refilled, so the stale mode becomes a seeded fill.
    if (g_cfg.mode == STALE) g_cfg.mode = PRNG;
  }
  g_padRng = Rng(mix64(c.padSeed, 0x9AD));
  g_recRng = Rng(mix64(c.padSeed, 0x4EC));
  counters = Counters();
  if (startAt) counters.continuedBehindLeak = 1;
  if (carry && carry->valid && carry->slot == g_slot) counters.carried = carry->freed.size();
  counters.slot = (uint64_t)g_slot;
  g_active = true;
  g_harnessDepth--;
}
void end() {
  if (g_active && g_slot >= 0 && g_arena) {
    HarnessScope hs;
    g_slotFreed[g_slot].clear();
    if (g_live[g_slot] > 0) {       // something stays alive in this slot: remember what was freed around it
      for (uint32_t k = 0; k <= SMALL; k++) for (char *b : g_free[k]) g_slotFreed[g_slot].emplace_back(k, b);
      for (auto &e : *g_freeBig) g_slotFreed[g_slot].push_back(e);
    }
  }
  g_active = false;
}

static void *arenaAlloc(size_t n) {
  uint32_t size16 = (uint32_t)((n + 15) / 16);
  if (size16 == 0) size16 = 1;
  uint64_t ordinal = g_ordinal++;
  counters.allocs++;
  counters.bytes += n;
  char *blk = nullptr;
  bool recycled = false;
  if (size16 <= SMALL) {
    auto &fl = g_free[size16];
    if (!fl.empty()) {
      size_t idx = fl.size() - 1;
      if (g_cfg.shuffleRecycle) idx = (size_t)g_recRng.below(fl.size());
      blk = fl[idx];
      fl[idx] = fl.back();
      g_harnessDepth++; fl.pop_back(); g_harnessDepth--;
      recycled = true;
    }
  } else {
    for (size_t k = g_freeBig->size(); k-- > 0;) {
      if ((*g_freeBig)[k].first == size16) {
        blk = (*g_freeBig)[k].second;
        g_harnessDepth++; g_freeBig->erase(g_freeBig->begin() + (long)k); g_harnessDepth--;
        recycled = true;
        break;
      }
    }
  }
  if (!blk) {
    size_t pad = 0;
    if (g_cfg.padSeed && g_cfg.padMax) pad = (size_t)g_padRng.below(g_cfg.padMax + 1) * 16;
    size_t need = pad + sizeof(Header) + (size_t)size16 * 16;
    if (g_bump + need > SLOT_SIZE) { counters.overflowToMalloc++; return nullptr; }
    blk = g_arena + (size_t)g_slot * SLOT_SIZE + g_bump + pad + sizeof(Header);
    g_bump += need;
    if (g_bump > g_high[g_slot]) g_high[g_slot] = g_bump;
    counters.fresh++;
  } else counters.recycled++;
  Header *h = (Header *)(blk - sizeof(Header));
  h->magic = MAGIC; h->epoch = g_epoch; h->size16 = size16; h->slot = (uint32_t)g_slot;
  g_live[g_slot]++;
  if (!(recycled && g_cfg.mode == STALE)) fill(blk, (size_t)size16 * 16, ordinal);
  return blk;
}
static void arenaFree(void *p) {
  Header *h = (Header *)((char *)p - sizeof(Header));
  if (h->magic != MAGIC || h->slot >= (uint32_t)NUM_SLOTS) return;   // not ours / damaged: leak it
  h->magic = 0;
  if (g_live[h->slot] > 0) g_live[h->slot]--;
  if (h->epoch != g_epoch || (int)h->slot != g_slot) return;           // block of an older epoch
  if (g_active && g_cfg.scribbleFree && g_cfg.mode != STALE) { fill((char *)p, (size_t)h->size16 * 16, 0x5C81BB1Eull + g_ordinal); counters.scribbled++; }
  g_harnessDepth++;
  if (h->size16 <= SMALL) g_free[h->size16].push_back((char *)p);
  else g_freeBig->emplace_back(h->size16, (char *)p);
  g_harnessDepth--;
}

void *allocate(size_t n) {
  if (g_active && g_harnessDepth == 0) {
    void *p = arenaAlloc(n);
    if (p) return p;
  }
  void *p = std::malloc(n ? n : 1);
  if (!p) throw std::bad_alloc();
  return p;
}
void release(void *p) noexcept {
  if (!p) return;
  if (inArena(p)) { arenaFree(p); return; }
  std::free(p);
}
} // namespace heap
} // namespace sim

#if !SIM_SANITIZED
void *operator new(std::size_t n) { return sim::heap::allocate(n); }
void *operator new[](std::size_t n) { return sim::heap::allocate(n); }
void *operator new(std::size_t n, const std::nothrow_t &) noexcept { try { return sim::heap::allocate(n); } catch (...) { return nullptr; } }
void *operator new[](std::size_t n, const std::nothrow_t &) noexcept { try { return sim::heap::allocate(n); } catch (...) { return nullptr; } }
void operator delete(void *p) noexcept { sim::heap::release(p); }
void operator delete[](void *p) noexcept { sim::heap::release(p); }
void operator delete(void *p, std::size_t) noexcept { sim::heap::release(p); }
void operator delete[](void *p, std::size_t) noexcept { sim::heap::release(p); }
void operator delete(void *p, const std::nothrow_t &) noexcept { sim::heap::release(p); }
void operator delete[](void *p, const std::nothrow_t &) noexcept { sim::heap::release(p); }
#endif

//=============================================================================================
// Stack
//=============================================================================================
namespace sim {
namespace {
// The code under test runs on a stack of its own at a fixed address, so that what it finds there -
// the planned fill, and later the residue of its own earlier frames (return addresses, saved
// registers, pointers to its locals) - is the same in the batch worker and in a fresh replay
// process, whatever their command lines, environments and call depths are.  (The process runs with
// address-space randomisation off, see disableAslrOnce(), so code and library addresses repeat too.)
constexpr uintptr_t kStackAt = 0x6e0000000000ull;
constexpr size_t kStackSize = 64ull << 20;
char *g_stack = nullptr;
bool g_onPrivateStack = false;
ucontext_t g_mainCtx, g_runCtx;
const std::function<void()> *g_runFn = nullptr;
std::exception_ptr g_runExc;

void trampoline() {
  try { (*g_runFn)(); } catch (...) { g_runExc = std::current_exception(); }
}

void fillStack(char *p, int mode, size_t bytes, uint64_t seed) {
  uint64_t s = seed;
  switch (mode) {
    case STACK_CLEAN:
    case STACK_ZERO: std::memset(p, 0, bytes); break;
    case STACK_ONES: std::memset(p, 0xFF, bytes); break;
    case STACK_POINTERISH:
      for (size_t k = 0; k + 8 <= bytes; k += 8) { uint64_t v = 0x6f0000000000ull + (splitmix64(s) & 0xFFFFFF8ull); std::memcpy(p + k, &v, 8); }
      break;
    default:
      for (size_t k = 0; k + 8 <= bytes; k += 8) { uint64_t v = splitmix64(s); std::memcpy(p + k, &v, 8); }
  }
}
} // namespace

void callOnDirtyStack(int mode, size_t bytes, uint64_t seed, size_t shift, const std::function<void()> &f) {
  if (g_onPrivateStack) { f(); return; }
  if (!g_stack) {
    void *m = mmap((void *)kStackAt, kStackSize, PROT_READ | PROT_WRITE, MAP_PRIVATE | MAP_ANONYMOUS | MAP_NORESERVE | MAP_FIXED_NOREPLACE, -1, 0);
    if (m != (void *)kStackAt) { std::fprintf(stderr, "sim: cannot map the private stack at %p\n", (void *)kStackAt); _exit(2); }
    g_stack = (char *)m;
  }
  bytes = std::min((bytes + 4095) & ~(size_t)4095, kStackSize / 2);
  shift = std::min(shift & ~(size_t)15, bytes / 2);
  // Below the planned fill: fresh zero pages (nothing of an earlier run survives).
  madvise(g_stack, kStackSize - bytes, MADV_DONTNEED);
  fillStack(g_stack + kStackSize - bytes, mode, bytes, seed);
  getcontext(&g_runCtx);
  g_runCtx.uc_stack.ss_sp = g_stack;
  g_runCtx.uc_stack.ss_size = kStackSize - shift;
  g_runCtx.uc_link = &g_mainCtx;
  makecontext(&g_runCtx, trampoline, 0);
  g_runFn = &f;
  g_runExc = nullptr;
  g_onPrivateStack = true;
  swapcontext(&g_mainCtx, &g_runCtx);
  g_onPrivateStack = false;
  if (g_runExc) { std::exception_ptr e = g_runExc; g_runExc = nullptr; std::rethrow_exception(e); }
}

// Address-space randomisation off for this process image (re-executes itself once).  Where the
// kernel refuses, execution simply continues: the private stack and the arena still repeat, only
// code and library addresses left behind as residue may differ between processes.
void disableAslrOnce(char **argv) {
  int pers = personality(0xffffffff);
  if (pers == -1 || (pers & ADDR_NO_RANDOMIZE) || getenv("VERIF_ASLR_KEPT")) return;
  if (personality(pers | ADDR_NO_RANDOMIZE) == -1) return;
  setenv("VERIF_ASLR_KEPT", "1", 1);     // never loop if the flag does not stick
  execv("/proc/self/exe", argv);
}

//=============================================================================================
// exit / crash trapping
//=============================================================================================
namespace {
jmp_buf g_exitJmp;
bool g_exitArmed = false;
int g_exitCode = 0;
sigjmp_buf g_crashJmp;
volatile sig_atomic_t g_crashArmed = 0;
volatile sig_atomic_t g_crashSig = 0;
bool g_handlersInstalled = false;

void crashHandler(int sig) {
  if (g_crashArmed) {
    g_crashArmed = 0;
    g_crashSig = sig;
    siglongjmp(g_crashJmp, 1);
  }
  signal(sig, SIG_DFL);
  raise(sig);
}
void installHandlers() {
  if (g_handlersInstalled) return;
  g_handlersInstalled = true;
  static char altstack[1 << 16];
  stack_t ss;
  ss.ss_sp = altstack; ss.ss_size = sizeof altstack; ss.ss_flags = 0;
  sigaltstack(&ss, nullptr);
  struct sigaction sa;
  std::memset(&sa, 0, sizeof sa);
  sa.sa_handler = crashHandler;
  sa.sa_flags = SA_ONSTACK | SA_NODEFER;
  sigemptyset(&sa.sa_mask);
  for (int s : {SIGSEGV, SIGBUS, SIGFPE, SIGILL, SIGABRT, SIGALRM}) sigaction(s, &sa, nullptr);
}
} // namespace

std::string Trapped::str() const {
  switch (kind) {
    case RETURNED: return "returned(" + std::to_string(status) + ")";
    case EXITED: return "exit(" + std::to_string(status) + ")";
    case THREW: return "threw(" + what + ")";
    case CRASHED: return "crashed(signal " + std::to_string(signal) + ")";
  }
  return "?";
}

Trapped runTrapped(const std::function<int()> &f, unsigned watchdogSeconds) {
  installHandlers();
  Trapped t;
  int savedDepth = g_harnessDepth;
  if (sigsetjmp(g_crashJmp, 0) != 0) {
    g_harnessDepth = savedDepth;
    g_exitArmed = false;
    g_tainted = true;
    alarm(0);
    t.kind = Trapped::CRASHED;
    t.signal = g_crashSig;
    return t;
  }
  g_crashArmed = 1;
  if (setjmp(g_exitJmp) != 0) {
    g_harnessDepth = savedDepth;
    g_crashArmed = 0;
    g_exitArmed = false;
    alarm(0);
    t.kind = Trapped::EXITED;
    t.status = g_exitCode;
    return t;
  }
  g_exitArmed = true;
  if (watchdogSeconds) alarm(watchdogSeconds);
  try {
    t.status = f();
    t.kind = Trapped::RETURNED;
  } catch (const std::exception &e) {
    HarnessScope hs;
    t.kind = Trapped::THREW;
    t.what = e.what();
  } catch (...) {
    HarnessScope hs;
    t.kind = Trapped::THREW;
    t.what = "(non-std exception)";
  }
  alarm(0);
  g_exitArmed = false;
  g_crashArmed = 0;
  g_harnessDepth = savedDepth;
  return t;
}

Trapped runTool(ToolMain fn, const std::vector<std::string> &argv) {
  std::vector<const char *> av;
  {
    HarnessScope hs;
    for (auto &a : argv) av.push_back(a.c_str());
    av.push_back(nullptr);
  }
  int argc = (int)argv.size();
  const char **p = av.data();
  return runTrapped([=]() { return fn(argc, p); });
}

void pinToCpu(int cpu) {
  cpu_set_t set;
  CPU_ZERO(&set);
  CPU_SET(cpu, &set);
  sched_setaffinity(0, sizeof set, &set);
}

} // namespace sim

extern "C" {
void __real_exit(int) __attribute__((noreturn));
void __wrap_exit(int code) {
  if (sim::g_exitArmed) {
    sim::g_exitCode = code;
    longjmp(sim::g_exitJmp, 1);
  }
  __real_exit(code);
}
}
