// Batch driver shared by all harnesses: seeded fan-out over forked workers, violation gate
// (same-plan-twice, shrink, fresh-process replay), known findings, statistics for the evidence file.
#pragma once
#include "host.hpp"
#include "json.hpp"
#include "prng.hpp"

#include <algorithm>
#include <chrono>
#include <cstdio>
#include <cstring>
#include <fcntl.h>
#include <fstream>
#include <malloc.h>
#include <map>
#include <poll.h>
#include <set>
#include <sstream>
#include <string>
#include <sys/resource.h>
#include <sys/wait.h>
#include <unistd.h>
#include <vector>

namespace sim {

struct Outcome {
  bool violated = false;
  std::string vclass, detail, signature;
  std::string note = "completed";     // or "cut:<reason>", "skipped:<reason>"
  std::string hash;
  bool nontrivial = false;
  uint64_t simCycles = 0, simInstr = 0;
  std::map<std::string, uint64_t> counters;
  std::vector<std::string> stateKeys;
  void violate(const std::string &cls, const std::string &det, const std::string &sig = "") {
    if (violated) return;              // the first violation of a run is the one reported
    violated = true; vclass = cls; detail = det; signature = sig.empty() ? cls : sig;
  }
  void count(const std::string &k, uint64_t n = 1) { counters[k] += n; }
};

class Harness {
public:
  std::string property;               // e.g. "C03"
  std::string tier = "quick";
  virtual ~Harness() {}
  virtual const char *name() const = 0;
  virtual void workerInit() {}
  virtual Json generate(uint64_t runSeed, uint64_t index) = 0;
  virtual Outcome execute(const Json &plan) = 0;
  // Make a plan self-contained (embed referenced corpus images) before it is written out.
  virtual Json materialise(const Json &plan) { return plan; }
  virtual std::vector<Json> simplifyOp(const Json &op) { (void)op; return {}; }
  // Static description for the evidence file.
  virtual Json describe() { return Json::object(); }
  // Ops that may not be removed by the shrinker.
  virtual bool removable(const Json &op) { (void)op; return true; }
  // True when the code under test can really crash: confirmation, shrinking and replay then run
  // every execution in a forked child, so a damaged process never judges the next plan.
  virtual bool crashProne() { return false; }
};

// Plain POSIX I/O: the harness's own files must not go through the simulated file layer.
inline std::string readFile(const std::string &p) {
  std::string r;
  int fd = ::open(p.c_str(), O_RDONLY);
  if (fd < 0) return r;
  char buf[65536];
  ssize_t n;
  while ((n = ::read(fd, buf, sizeof buf)) > 0) r.append(buf, (size_t)n);
  ::close(fd);
  return r;
}
inline void writeFile(const std::string &p, const std::string &s) {
  int fd = ::open(p.c_str(), O_WRONLY | O_CREAT | O_TRUNC, 0644);
  if (fd < 0) { perror(p.c_str()); return; }
  size_t off = 0;
  while (off < s.size()) { ssize_t n = ::write(fd, s.data() + off, s.size() - off); if (n <= 0) break; off += (size_t)n; }
  ::close(fd);
}

//---------------------------------------------------------------------------------------------
// Known findings file:   known: property=C14 sig=<signature> -- text      fixed: property=... -- text
//---------------------------------------------------------------------------------------------
struct KnownFindings {
  struct Entry { std::string property, sig, text; };
  std::vector<Entry> known;
  void load(const std::string &path) {
    std::istringstream f(readFile(path));
    std::string line;
    while (std::getline(f, line)) {
      if (line.compare(0, 6, "known:") != 0) continue;
      Entry e;
      std::istringstream ss(line.substr(6));
      std::string tok;
      while (ss >> tok) {
        if (tok.compare(0, 9, "property=") == 0) e.property = tok.substr(9);
        else if (tok.compare(0, 4, "sig=") == 0) e.sig = tok.substr(4);
        else if (tok == "--") { std::getline(ss, e.text); break; }
      }
      if (!e.property.empty() && !e.sig.empty()) known.push_back(e);
    }
  }
  const Entry *match(const std::string &prop, const std::string &sig) const {
    for (auto &e : known) if (e.property == prop && e.sig == sig) return &e;
    return nullptr;
  }
};

//---------------------------------------------------------------------------------------------
// Shrinking.
//---------------------------------------------------------------------------------------------
struct ShrinkStats { int runs = 0; size_t fromOps = 0, toOps = 0; };
inline Outcome executeIsolated(Harness &h, const Json &plan);

inline std::vector<Json> genericSimplify(const Json &op) {
  std::vector<Json> out;
  for (size_t k = 0; k < op.o.size(); k++) {
    const std::string &key = op.o[k].first;
    const Json &v = op.o[k].second;
    if (key == "op") continue;
    if (v.type == Json::INT && v.i != 0) {
      std::vector<int64_t> cands = {0, v.i / 2, v.i > 0 ? v.i - 1 : v.i + 1};
      for (int64_t c : cands) if (c != v.i) { Json n = op; n.o[k].second = Json((long long)c); out.push_back(n); }
    } else if (v.type == Json::STR && key.size() >= 3 && key.compare(key.size() - 3, 3, "hex") == 0 && v.s.size() >= 2) {
      size_t nb = v.s.size() / 2;
      auto put = [&](const std::string &ns) { if (ns != v.s) { Json n = op; n.o[k].second = Json(ns); out.push_back(n); } };
      // Truncations first (shorter is simpler), then removal and zeroing of chunks, coarse to fine.
      for (size_t keep = 0; keep < nb; keep = keep ? keep * 2 : 1) put(v.s.substr(0, keep * 2));
      put(v.s.substr(0, (nb - 1) * 2));
      size_t budget = 96;
      for (size_t chunk = nb / 2; chunk >= 1 && budget > 0; chunk /= 2) {
        for (size_t a = 0; a < nb && budget > 0; a += chunk) {
          size_t b = std::min(nb, a + chunk);
          put(v.s.substr(0, a * 2) + v.s.substr(b * 2));                       // remove
          std::string z = v.s;
          bool allZero = true;
          for (size_t q = a * 2; q < b * 2; q++) { if (z[q] != '0') allZero = false; z[q] = '0'; }
          if (!allZero) put(z);                                                 // zero
          budget--;
        }
        if (chunk == 1) break;
      }
    }
  }
  return out;
}

inline Json shrinkPlan(Harness &h, const Json &plan, const std::string &vclass, ShrinkStats &st,
                       int maxRuns = 3000, double maxSeconds = 30.0) {
  auto t0 = std::chrono::steady_clock::now();
  auto expired = [&]() {
    return st.runs >= maxRuns || std::chrono::duration<double>(std::chrono::steady_clock::now() - t0).count() > maxSeconds;
  };
  bool iso = h.crashProne();
  auto fails = [&](const Json &p) {
    st.runs++;
    Outcome o = iso ? executeIsolated(h, p) : h.execute(p);
    return o.violated && o.vclass == vclass;
  };
  Json best = plan;
  st.fromOps = best.at("ops").a.size();
  // ddmin over ops.
  {
    size_t n = 2;
    while (!expired()) {
      std::vector<Json> &ops = best["ops"].a;
      if (ops.size() < 2) break;
      size_t chunk = (ops.size() + n - 1) / n;
      bool reduced = false;
      for (size_t start = 0; start < ops.size() && !expired(); start += chunk) {
        Json cand = best;
        std::vector<Json> kept;
        bool removedAny = false;
        for (size_t k = 0; k < ops.size(); k++) {
          bool inChunk = k >= start && k < start + chunk;
          if (inChunk && h.removable(ops[k])) { removedAny = true; continue; }
          kept.push_back(ops[k]);
        }
        if (!removedAny) continue;
        cand["ops"].a = kept;
        if (fails(cand)) { best = cand; reduced = true; n = n > 2 ? n - 1 : 2; break; }
      }
      if (!reduced) {
        if (chunk <= 1) break;
        n = std::min(n * 2, best["ops"].a.size());
      }
    }
  }
  // Argument simplification until a fixed point.
  bool progress = true;
  while (progress && !expired()) {
    progress = false;
    for (size_t k = 0; k < best["ops"].a.size() && !expired(); k++) {
      bool again = true;
      while (again && !expired()) {
        again = false;
        std::vector<Json> cands = h.simplifyOp(best["ops"].a[k]);
        std::vector<Json> g = genericSimplify(best["ops"].a[k]);
        cands.insert(cands.end(), g.begin(), g.end());
        for (auto &c : cands) {
          if (expired()) break;
          if (c == best["ops"].a[k]) continue;
          Json cand = best;
          cand["ops"].a[k] = c;
          if (fails(cand)) { best = cand; progress = true; again = true; break; }
        }
      }
    }
  }
  // Integer settings in config (e.g. max_steps) shrink like op arguments.
  {
    bool again = true;
    while (again && !expired()) {
      again = false;
      for (auto &c : genericSimplify(best["config"])) {
        if (expired()) break;
        Json cand = best;
        cand["config"] = c;
        if (fails(cand)) { best = cand; again = true; break; }
      }
    }
  }
  st.toOps = best["ops"].a.size();
  return best;
}

//---------------------------------------------------------------------------------------------
// Driver.
//---------------------------------------------------------------------------------------------
struct DriverArgs {
  std::string property, tier = "quick", outPath, replayPath, replayDir = "/verif/replays", knownPath = "/verif/known_findings.txt";
  uint64_t seed = 1;
  uint64_t runs = 1000;
  int workers = 16;
  double wallCap = 0;          // seconds; 0 = none
  bool quiet = false;
  bool hashesOnly = false;     // print "H <index> <hash> <note>" per run (determinism campaign)
  int64_t single = -1;         // run just this index and print its plan and outcome
  std::string self;
  int gateLeft = 2;            // violations this worker instance may still confirm, shrink and write out
  std::chrono::steady_clock::time_point batchStart{};   // the wall cap counts from the start of the batch, also for a restarted worker
};

inline uint64_t runSeedFor(const DriverArgs &a, const Harness &h, uint64_t index) {
  return mix64(a.seed, hashStr(std::string(h.name()) + ":" + h.property), index);
}

inline Json outcomeToJson(const Outcome &o);
inline Outcome outcomeFromJson(const Json &j) {
  Outcome o;
  o.violated = j.getBool("violated");
  o.vclass = j.getStr("class"); o.detail = j.getStr("detail"); o.signature = j.getStr("signature");
  o.note = j.getStr("note"); o.hash = j.getStr("hash");
  return o;
}
// Execute a plan in a forked child and ship the outcome back.  A child that dies without reporting
// is the outcome "crashed" (class crashed, signature crashed:hard).
inline Outcome executeIsolated(Harness &h, const Json &plan);

inline Json outcomeToJson(const Outcome &o) {
  Json j = Json::object();
  j["violated"] = o.violated;
  if (o.violated) { j["class"] = o.vclass; j["detail"] = o.detail; j["signature"] = o.signature; }
  j["note"] = o.note;
  j["hash"] = o.hash;
  return j;
}

#ifdef VERIF_COV
extern "C" void __gcov_dump(void);
inline void covDump() { __gcov_dump(); }
#else
inline void covDump() {}
#endif

// Pristine fork server.  A worker that has executed thousands of plans is not the process a replay
// file will meet: code under test may keep state in statics between calls (that is exactly what C11's
// "whatever was processed earlier in the same process" is about).  So confirmation, shrinking and the
// final execution of a violation run in children of a template process that was forked right after
// workerInit() and has executed nothing: the state a fresh `--replay` process is in.
// A plan may carry a prelude: indexes of plans of the same batch that are executed first (their
// outcomes are ignored), so that state the code under test keeps between calls is part of the
// replayable history ("whatever was processed earlier in the same process").
inline Outcome executeWithPrelude(Harness &h, const Json &plan, bool keepLog = false) {
  if (const Json *pi = plan.find("prelude_indexes")) {
    uint64_t batchSeed = plan.getU64("batch_seed");
    uint64_t salt = hashStr(std::string(h.name()) + ":" + h.property);
    for (auto &ix : pi->a) {
      uint64_t idx = (uint64_t)ix.i;
      Json pp = h.generate(mix64(batchSeed, salt, idx), idx);
      g_log.reset(false);
      h.execute(pp);
    }
  }
  g_log.reset(keepLog);
  return h.execute(plan);
}

struct PristineServer { pid_t pid = -1; int req = -1, rsp = -1; };
inline PristineServer g_pristine;
inline bool ioAll(int fd, void *buf, size_t n, bool wr) {
  char *b = (char *)buf; size_t off = 0;
  while (off < n) { ssize_t k = wr ? ::write(fd, b + off, n - off) : ::read(fd, b + off, n - off); if (k <= 0) { if (k < 0 && errno == EINTR) continue; return false; } off += (size_t)k; }
  return true;
}
inline std::string runPlanInChild(Harness &h, const std::string &planJson) {
  int p[2];
  if (pipe(p) != 0) _exit(2);
  pid_t c = fork();
  if (c < 0) _exit(2);
  if (c == 0) {
    close(p[0]);
    std::string out;
    try { Json plan = Json::parse(planJson); Outcome o = executeWithPrelude(h, plan); out = outcomeToJson(o).dump(); } catch (...) {}
    ioAll(p[1], &out[0], out.size(), true);
    covDump();
    _exit(0);
  }
  close(p[1]);
  std::string js; char buf[4096]; ssize_t n;
  while ((n = ::read(p[0], buf, sizeof buf)) > 0) js.append(buf, (size_t)n);
  close(p[0]);
  int status = 0;
  waitpid(c, &status, 0);
  if (js.empty()) {
    Outcome o;
    std::string why = WIFSIGNALED(status) ? "signal " + std::to_string(WTERMSIG(status)) : "exit " + std::to_string(WEXITSTATUS(status));
    o.violate("crashed", "the process died (" + why + ") while executing the plan", "crashed:hard");
    o.hash = "died:" + why;
    js = outcomeToJson(o).dump();
  }
  return js;
}
inline void startPristineServer(Harness &h) {
  int rq[2], rs[2];
  if (pipe(rq) != 0 || pipe(rs) != 0) return;
  pid_t pid = fork();
  if (pid < 0) return;
  if (pid == 0) {
    close(rq[1]); close(rs[0]);
    for (;;) {
      uint32_t n = 0;
      if (!ioAll(rq[0], &n, 4, false)) _exit(0);
      std::string js(n, '\0');
      if (n && !ioAll(rq[0], &js[0], n, false)) _exit(0);
      std::string out = runPlanInChild(h, js);
      uint32_t m = (uint32_t)out.size();
      if (!ioAll(rs[1], &m, 4, true) || !ioAll(rs[1], &out[0], m, true)) _exit(0);
    }
  }
  close(rq[0]); close(rs[1]);
  g_pristine.pid = pid; g_pristine.req = rq[1]; g_pristine.rsp = rs[0];
}

inline Outcome executeIsolated(Harness &h, const Json &plan) {
  if (g_pristine.pid > 0) {
    std::string js = plan.dump();
    uint32_t n = (uint32_t)js.size(), m = 0;
    if (ioAll(g_pristine.req, &n, 4, true) && ioAll(g_pristine.req, &js[0], n, true) && ioAll(g_pristine.rsp, &m, 4, false)) {
      std::string out(m, '\0');
      if (!m || ioAll(g_pristine.rsp, &out[0], m, false)) { try { return outcomeFromJson(Json::parse(out)); } catch (...) {} }
    }
    g_pristine.pid = -1;      // the server is gone: fall back to a plain fork below
  }
  int p[2];
  if (pipe(p) != 0) { perror("pipe"); _exit(2); }
  std::fflush(stdout);
  pid_t pid = fork();
  if (pid < 0) { perror("fork"); _exit(2); }
  if (pid == 0) {
    close(p[0]);
    g_log.reset(false);
    Outcome o = h.execute(plan);
    std::string js = outcomeToJson(o).dump();
    size_t off = 0;
    while (off < js.size()) { ssize_t n = ::write(p[1], js.data() + off, js.size() - off); if (n <= 0) break; off += (size_t)n; }
    covDump();
    _exit(0);
  }
  close(p[1]);
  std::string js;
  char buf[4096];
  ssize_t n;
  while ((n = ::read(p[0], buf, sizeof buf)) > 0) js.append(buf, (size_t)n);
  close(p[0]);
  int status = 0;
  waitpid(pid, &status, 0);
  if (!js.empty()) { try { return outcomeFromJson(Json::parse(js)); } catch (...) {} }
  Outcome o;
  std::string why = WIFSIGNALED(status) ? "signal " + std::to_string(WTERMSIG(status)) : "exit " + std::to_string(WEXITSTATUS(status));
  o.violate("crashed", "the process died (" + why + ") while executing the plan", "crashed:hard");
  o.hash = "died:" + why;
  return o;
}

// Replay a file in this process.  Returns 0 when no violation, 1 when the recorded violation
// reproduces (same class and same event-log hash), 3 when a different result is seen.
inline int replayFile(Harness &h, const DriverArgs &a) {
  Json rf = Json::parse(readFile(a.replayPath));
  h.property = rf.getStr("property", h.property);
  h.workerInit();
  Json plan = Json::object();
  plan["config"] = rf.at("config");
  plan["ops"] = rf.at("ops");
  plan["seed"] = rf.has("seed") ? rf.at("seed") : Json(0);
  if (rf.has("prelude_indexes")) { plan["prelude_indexes"] = rf.at("prelude_indexes"); plan["batch_seed"] = rf.at("batch_seed"); }
  Outcome o = executeWithPrelude(h, plan, true);
  Json res = outcomeToJson(o);
  std::string wantClass = rf.has("violation") ? rf.at("violation").getStr("class") : "";
  std::string wantHash = rf.getStr("event_log_hash");
  res["expected_class"] = wantClass;
  res["expected_hash"] = wantHash;
  bool same = o.violated && o.vclass == wantClass && (wantHash.empty() || wantHash == o.hash);
  res["reproduced"] = same;
  std::printf("REPLAY %s\n", res.dump().c_str());
  if (!a.quiet) {
    for (auto &l : g_log.lines) std::printf("  ev %s\n", l.c_str());
  }
  if (same) { std::printf("VIOLATION property=%s replay=%s\n", h.property.c_str(), a.replayPath.c_str()); return 1; }
  if (!o.violated) return 0;
  return 3;
}

struct WorkerSummary {
  std::map<std::string, uint64_t> counters;
  std::set<std::string> keys;
};

inline void workerLoop(Harness &h, const DriverArgs &a, int w, int W, uint64_t startIndex, int fd, const KnownFindings &kf) {
  FILE *out = fdopen(fd, "w");
  pinToCpu(w % 16);
  {
    // Whatever code under test does behind the stream seam must not reach the harness's own
    // descriptors: real stdin reads end of file, real stdout goes nowhere (results travel on `fd`).
    int nul = ::open("/dev/null", O_RDWR);
    if (nul >= 0) { dup2(nul, 0); dup2(nul, 1); if (nul > 2) ::close(nul); }
  }
  {
    // Safety net: code under test that loops while allocating (hexsim's loader on a malformed file
    // does) ends in bad_alloc after 6 GB instead of taking the machine down.
    struct rlimit rl; rl.rlim_cur = rl.rlim_max = 6ull << 30;
    setrlimit(RLIMIT_AS, &rl);
  }
  h.workerInit();
  if (h.crashProne()) startPristineServer(h);
  std::map<std::string, uint64_t> counters;
  std::set<std::string> keys;
  int gated = 0, samples = 0;
  std::vector<uint64_t> hist;      // indexes this worker instance has executed, in order
  auto t0 = a.batchStart == std::chrono::steady_clock::time_point{} ? std::chrono::steady_clock::now() : a.batchStart;
  for (uint64_t i = startIndex; i < a.runs; i++) {
    if ((int)(i % (uint64_t)W) != w) continue;
    if (a.wallCap > 0 && std::chrono::duration<double>(std::chrono::steady_clock::now() - t0).count() > a.wallCap) {
      std::fprintf(out, "C %llu\n", (unsigned long long)i);   // capped: not run
      continue;
    }
    std::fprintf(out, "S %llu\n", (unsigned long long)i);
    std::fflush(out);
    uint64_t rs = runSeedFor(a, h, i);
    Json plan = h.generate(rs, i);
    plan["seed"] = Json(std::to_string(rs));
    g_log.reset(false);
    auto tr0 = std::chrono::steady_clock::now();
    Outcome o = h.execute(plan);
    hist.push_back(i);
    double runMs = std::chrono::duration<double, std::milli>(std::chrono::steady_clock::now() - tr0).count();
    Json line = Json::object();
    line["i"] = (unsigned long long)i;
    if (runMs > 2000) line["ms"] = (unsigned long long)runMs;      // diagnostics only: never part of a hash or a verdict
    line["h"] = o.hash;
    line["nt"] = o.nontrivial;
    line["note"] = o.note;
    line["cyc"] = (unsigned long long)o.simCycles;
    line["ins"] = (unsigned long long)o.simInstr;
    for (auto &kv : o.counters) counters[kv.first] += kv.second;
    {
      Json nk = Json::array();
      for (auto &k : o.stateKeys) if (keys.insert(k).second) nk.push(k);
      if (nk.size()) line["keys"] = nk;
    }
    if (samples < 2) { std::string d = plan.dump(); if (d.size() < 20000) { samples++; line["sample"] = plan; } }
    if (o.violated) {
      Json v = Json::object();
      v["class"] = o.vclass; v["detail"] = o.detail; v["sig"] = o.signature;
      if (kf.match(h.property, o.signature)) {
        v["known"] = true;
      } else if (gated < a.gateLeft) {
        gated++;
        // (1) same plan again (in a forked child when the code under test can crash)
        bool iso = h.crashProne();
        g_log.reset(false);
        Outcome o2 = iso ? executeIsolated(h, plan) : h.execute(plan);
        bool confirmed = o2.violated && o2.vclass == o.vclass && o2.hash == o.hash;
        if (!confirmed && iso && o2.violated) {
          // The worker's own execution came after thousands of other plans; what counts is what a
          // fresh process does, twice the same.
          g_log.reset(false);
          Outcome o3 = executeIsolated(h, plan);
          if (o3.violated && o3.vclass == o2.vclass && o3.hash == o2.hash) {
            confirmed = true;
            o = o2;
            v["class"] = o.vclass; v["detail"] = o.detail; v["sig"] = o.signature;
            v["worker_state_differed"] = true;
          }
        }
        if (!confirmed && iso && !o2.violated && hist.size() > 1) {
          // A fresh process does not show it: the worker's earlier plans are part of the cause.  Put the
          // most recent ones in front of the plan as a prelude and ask a fresh process again.
          Json withPre = plan;
          Json pi = Json::array();
          size_t end = hist.size() - 1;                       // the last entry is this plan itself
          size_t from = end > 64 ? end - 64 : 0;
          for (size_t k = from; k < end; k++) pi.push((unsigned long long)hist[k]);
          withPre["prelude_indexes"] = pi;
          withPre["batch_seed"] = (unsigned long long)a.seed;
          Outcome p1 = executeIsolated(h, withPre);
          Outcome p2 = p1.violated ? executeIsolated(h, withPre) : p1;
          if (p1.violated && p2.violated && p1.vclass == p2.vclass && p1.hash == p2.hash) {
            // ddmin over the prelude.
            std::vector<Json> idx = withPre["prelude_indexes"].a;
            auto stillFails = [&](const std::vector<Json> &cand) {
              Json t = withPre; t["prelude_indexes"].a = cand;
              Outcome q = executeIsolated(h, t);
              return q.violated && q.vclass == p1.vclass;
            };
            size_t nparts = 2; int budget = 120;
            while (idx.size() >= 1 && budget > 0) {
              size_t chunk = (idx.size() + nparts - 1) / nparts;
              bool reduced = false;
              for (size_t start = 0; start < idx.size() && budget > 0; start += chunk) {
                std::vector<Json> cand;
                for (size_t k = 0; k < idx.size(); k++) if (k < start || k >= start + chunk) cand.push_back(idx[k]);
                budget--;
                if (stillFails(cand)) { idx = cand; reduced = true; nparts = nparts > 2 ? nparts - 1 : 2; break; }
              }
              if (!reduced) { if (chunk <= 1) break; nparts = std::min(nparts * 2, idx.size()); }
            }
            withPre["prelude_indexes"].a = idx;
            g_log.reset(false);
            Outcome pf = executeIsolated(h, withPre);
            if (pf.violated && pf.vclass == p1.vclass) {
              confirmed = true;
              plan = withPre;
              o = pf;
              v["class"] = o.vclass; v["detail"] = o.detail; v["sig"] = o.signature;
              v["prelude_plans"] = (unsigned long long)idx.size();
            }
          }
        }
        if (!confirmed) {
          v["nondet"] = true;
          if (iso && !o2.violated) v["pristine_clean"] = true;     // seen after other plans in this worker, not from a fresh process
          v["second"] = outcomeToJson(o2);
        } else {
          // (2) shrink
          ShrinkStats st;
          Json mat = h.materialise(plan);
          Json small = shrinkPlan(h, mat, o.vclass, st);
          g_log.reset(false);
          Outcome os = iso ? executeIsolated(h, small) : h.execute(small);
          if (!(os.violated && os.vclass == o.vclass)) { small = mat; g_log.reset(false); os = iso ? executeIsolated(h, small) : h.execute(small); }
          // (3) replay file
          Json rf = Json::object();
          rf["format"] = 1;
          rf["property"] = h.property;
          rf["harness"] = h.name();
          rf["seed"] = plan["seed"];
          Json vv = Json::object();
          vv["class"] = os.vclass; vv["detail"] = os.detail; vv["signature"] = os.signature;
          rf["violation"] = vv;
          rf["event_log_hash"] = os.hash;
          rf["config"] = small["config"];
          rf["ops"] = small["ops"];
          if (small.has("prelude_indexes")) { rf["prelude_indexes"] = small.at("prelude_indexes"); rf["batch_seed"] = small.at("batch_seed"); }
          rf["shrunk_from_ops"] = (unsigned long long)st.fromOps;
          rf["shrink_runs"] = st.runs;
          std::string path = a.replayDir + "/" + h.property + "-" + plan["seed"].s + ".json";
          writeFile(path, rf.dump(1) + "\n");
          v["replay"] = path;
          v["shrunk_class"] = os.vclass;
          v["shrunk_detail"] = os.detail;
          v["shrunk_sig"] = os.signature;
          v["shrunk_hash"] = os.hash;
        }
      } else v["ungated"] = true;
      line["v"] = v;
    }
    std::fprintf(out, "R %s\n", line.dump().c_str());
    std::fflush(out);
    if (g_tainted) {
      Json z = Json::object();
      Json c = Json::object();
      for (auto &kv : counters) c[kv.first] = (unsigned long long)kv.second;
      z["counters"] = c;
      z["next"] = (unsigned long long)(i + 1);
      std::fprintf(out, "T %s\n", z.dump().c_str());
      std::fflush(out);
      covDump();
      _exit(99);
    }
  }
  Json z = Json::object();
  Json c = Json::object();
  for (auto &kv : counters) c[kv.first] = (unsigned long long)kv.second;
  z["counters"] = c;
  std::fprintf(out, "Z %s\n", z.dump().c_str());
  std::fflush(out);
  covDump();
  _exit(0);
}

inline int driverMain(int argc, char **argv, Harness &h) {
  disableAslrOnce(argv);
  // Large blocks (a Verilated model is 2 MB) always come from mmap and go back on free.  With
  // glibc's dynamic threshold they migrate into the brk heap after the first free, where small
  // long-lived blocks (caches) between them fragment it: a worker grew by about 150 kB per run.
  mallopt(M_MMAP_THRESHOLD, 256 * 1024);
  mallopt(M_TRIM_THRESHOLD, 1024 * 1024);
  DriverArgs a;
  a.self = argv[0];
  for (int k = 1; k < argc; k++) {
    std::string s = argv[k];
    auto val = [&]() -> std::string { return k + 1 < argc ? argv[++k] : ""; };
    if (s == "--property") a.property = val();
    else if (s == "--tier") a.tier = val();
    else if (s == "--out") a.outPath = val();
    else if (s == "--replay") a.replayPath = val();
    else if (s == "--replay-dir") a.replayDir = val();
    else if (s == "--known") a.knownPath = val();
    else if (s == "--seed") a.seed = std::strtoull(val().c_str(), nullptr, 0);
    else if (s == "--runs") a.runs = std::strtoull(val().c_str(), nullptr, 0);
    else if (s == "--workers") a.workers = std::atoi(val().c_str());
    else if (s == "--wall-cap") a.wallCap = std::atof(val().c_str());
    else if (s == "--quiet") a.quiet = true;
    else if (s == "--hashes") a.hashesOnly = true;
    else if (s == "--single") a.single = std::atoll(val().c_str());
    else { std::fprintf(stderr, "unknown argument %s\n", s.c_str()); return 2; }
  }
  h.property = a.property;
  h.tier = a.tier;
  if (!a.replayPath.empty()) return replayFile(h, a);
  if (a.property.empty()) { std::fprintf(stderr, "--property required\n"); return 2; }
  if (a.workers < 1) a.workers = 1;
  KnownFindings kf;
  kf.load(a.knownPath);

  if (a.single >= 0) {
    h.workerInit();
    uint64_t rs = runSeedFor(a, h, (uint64_t)a.single);
    Json plan = h.generate(rs, (uint64_t)a.single);
    plan["seed"] = Json(std::to_string(rs));
    if (const char *pre = getenv("VERIF_PRE")) {
      // Debugging aid for history dependence: run another index first in the same process.
      uint64_t pi = std::strtoull(pre, nullptr, 10);
      Json pp = h.generate(runSeedFor(a, h, pi), pi);
      g_log.reset(false);
      h.execute(pp);
    }
    if (const char *rep = getenv("VERIF_REPEAT")) {
      // Leak hunting: execute the same plan many times and report the resident set size.
      for (int k = 0, n = std::atoi(rep); k < n; k++) {
        g_log.reset(false);
        h.execute(plan);
        if (k % (n / 10 ? n / 10 : 1) == 0) { std::string st = readFile("/proc/self/statm"); std::printf("repeat %d statm %s", k, st.c_str()); }
      }
    }
    g_log.reset(true);
    Outcome o = h.execute(plan);
    std::printf("PLAN %s\n", h.materialise(plan).dump(1).c_str());
    std::printf("OUTCOME %s\n", outcomeToJson(o).dump().c_str());
    if (!a.quiet) for (auto &l : g_log.lines) std::printf("  ev %s\n", l.c_str());
    return o.violated ? 1 : 0;
  }

  auto t0 = std::chrono::steady_clock::now();
  a.batchStart = t0;
  struct W { pid_t pid = -1; int fd = -1; std::string buf; int64_t started = -1; uint64_t next = 0; bool done = false; int respawns = 0; };
  std::vector<W> ws((size_t)a.workers);
  size_t gatedTotal = 0;      // replay files written so far, over all workers and restarts
  auto spawn = [&](int w, uint64_t startIndex) {
    a.gateLeft = gatedTotal >= (size_t)(2 * a.workers) ? 0 : 2;
    int p[2];
    if (pipe(p) != 0) { perror("pipe"); exit(2); }
    std::fflush(stdout);
    pid_t pid = fork();
    if (pid < 0) { perror("fork"); exit(2); }
    if (pid == 0) {
      close(p[0]);
      for (auto &o : ws) if (o.fd >= 0) close(o.fd);
      workerLoop(h, a, w, a.workers, startIndex, p[1], kf);
      _exit(0);
    }
    close(p[1]);
    ws[(size_t)w].pid = pid; ws[(size_t)w].fd = p[0]; ws[(size_t)w].buf.clear(); ws[(size_t)w].started = -1; ws[(size_t)w].done = false;
  };
  for (int w = 0; w < a.workers; w++) spawn(w, 0);

  uint64_t evaluations = 0, capped = 0, violations = 0, knownHits = 0, nondet = 0, simCycles = 0, simInstr = 0, nontrivialRuns = 0;
  std::set<std::string> allHashes, ntHashes, keys;
  std::map<std::string, uint64_t> counters, notes, knownBySig;
  std::vector<Json> samples, violationRecs;
  std::vector<std::string> machineryErrors;
  std::vector<std::string> workerStateOnly;    // violations a worker saw after many other plans that a fresh process does not show
  std::vector<std::pair<uint64_t, uint64_t>> slowRuns;     // (milliseconds, index) of runs that took more than 2 s

  auto handleLine = [&](int w, const std::string &ln) {
    if (ln.size() < 2) return;
    char tag = ln[0];
    std::string body = ln.substr(2);
    W &wk = ws[(size_t)w];
    if (tag == 'S') { wk.started = std::atoll(body.c_str()); return; }
    if (tag == 'C') { capped++; return; }
    if (tag == 'Z' || tag == 'T') {
      Json z = Json::parse(body);
      if (auto *c = z.find("counters")) for (auto &kv : c->o) counters[kv.first] += (uint64_t)kv.second.i;
      if (tag == 'T') wk.next = z.getU64("next"); else wk.done = true;
      return;
    }
    if (tag != 'R') return;
    Json r = Json::parse(body);
    wk.started = -1;
    wk.next = r.getU64("i") + 1;
    evaluations++;
    std::string hh = r.getStr("h");
    allHashes.insert(hh);
    if (r.getBool("nt")) { ntHashes.insert(hh); nontrivialRuns++; }
    simCycles += r.getU64("cyc"); simInstr += r.getU64("ins");
    std::string note = r.getStr("note");
    notes[note.substr(0, note.find(' '))]++;
    if (auto *k = r.find("keys")) for (auto &s : k->a) keys.insert(s.s);
    if (auto *s = r.find("sample")) if (samples.size() < 6) samples.push_back(*s);
    if (r.has("ms")) slowRuns.push_back({r.getU64("ms"), r.getU64("i")});
    if (a.hashesOnly) std::printf("H %llu %s %s\n", (unsigned long long)r.getU64("i"), hh.c_str(), note.c_str());
    if (auto *v = r.find("v")) {
      if (v->getBool("known")) { knownHits++; knownBySig[v->getStr("sig")]++; return; }
      violations++;
      if (v->getBool("nondet")) {
        nondet++;
        std::string msg = "run " + std::to_string(r.getU64("i")) + ": same plan gave a different result when executed twice: " + v->dump();
        if (v->getBool("pristine_clean")) workerStateOnly.push_back(msg); else machineryErrors.push_back(msg);
      }
      Json rec = *v;
      rec["i"] = r.at("i");
      if (rec.has("replay") || rec.getBool("nondet")) gatedTotal++;
      violationRecs.push_back(rec);
    }
  };

  int live = a.workers;
  while (live > 0) {
    std::vector<pollfd> pf;
    std::vector<int> idx;
    for (int w = 0; w < a.workers; w++) if (ws[(size_t)w].fd >= 0) { pf.push_back({ws[(size_t)w].fd, POLLIN, 0}); idx.push_back(w); }
    if (pf.empty()) break;
    if (poll(pf.data(), pf.size(), 1000) < 0) { if (errno == EINTR) continue; perror("poll"); return 2; }
    for (size_t k = 0; k < pf.size(); k++) {
      if (!(pf[k].revents & (POLLIN | POLLHUP | POLLERR))) continue;
      int w = idx[k];
      W &wk = ws[(size_t)w];
      char buf[65536];
      ssize_t n = read(wk.fd, buf, sizeof buf);
      if (n > 0) {
        wk.buf.append(buf, (size_t)n);
        size_t pos;
        while ((pos = wk.buf.find('\n')) != std::string::npos) {
          std::string ln = wk.buf.substr(0, pos);
          wk.buf.erase(0, pos + 1);
          handleLine(w, ln);
        }
        continue;
      }
      // EOF: the worker is gone.
      close(wk.fd); wk.fd = -1;
      int status = 0;
      waitpid(wk.pid, &status, 0);
      if (wk.done) { live--; continue; }
      bool tainted = WIFEXITED(status) && WEXITSTATUS(status) == 99;
      if (tainted && wk.respawns < 1000) {
        wk.respawns++;
        counters["worker_restarts_after_trapped_crash"]++;
        spawn(w, wk.next);
        continue;
      }
      std::string why = WIFSIGNALED(status) ? "signal " + std::to_string(WTERMSIG(status)) : "exit " + std::to_string(WEXITSTATUS(status));
      machineryErrors.push_back("worker " + std::to_string(w) + " died (" + why + ") while running index " + std::to_string(wk.started));
      // Skip the index that killed it and carry on, so one bad run does not hide the rest.
      if (wk.started >= 0 && wk.respawns < 50) { wk.respawns++; spawn(w, (uint64_t)wk.started + 1); continue; }
      live--;
    }
  }
  double wall = std::chrono::duration<double>(std::chrono::steady_clock::now() - t0).count();

  // Gate: fresh-process replay of every shrunk violation.
  int reported = 0;
  std::vector<Json> reportedRecs;
  for (auto &rec : violationRecs) {
    if (!rec.has("replay")) continue;
    std::string path = rec.getStr("replay");
    std::string cmd = a.self + " --replay " + path + " --quiet --property " + a.property + " --tier " + a.tier + " 2>&1";
    FILE *p = popen(cmd.c_str(), "r");
    std::string outp;
    char b[4096];
    while (p && fgets(b, sizeof b, p)) outp += b;
    int st = p ? pclose(p) : -1;
    bool ok = st != -1 && WIFEXITED(st) && WEXITSTATUS(st) == 1 && outp.find("\"reproduced\":true") != std::string::npos;
    if (!ok) {
      machineryErrors.push_back("fresh-process replay of " + path + " did not reproduce: " + outp.substr(0, 400));
      continue;
    }
    // A shrunk plan may land on a known finding.
    if (kf.match(a.property, rec.getStr("shrunk_sig"))) { knownHits++; knownBySig[rec.getStr("shrunk_sig")]++; violations--; unlink(path.c_str()); continue; }
    reported++;
    reportedRecs.push_back(rec);
    std::printf("VIOLATION property=%s replay=%s\n", a.property.c_str(), path.c_str());
    std::printf("  class=%s detail=%s\n", rec.getStr("shrunk_class").c_str(), rec.getStr("shrunk_detail").c_str());
  }
  for (auto &kv : knownBySig) {
    const KnownFindings::Entry *e = kf.match(a.property, kv.first);
    std::printf("KNOWN-FINDING: property=%s sig=%s hits=%llu%s\n", a.property.c_str(), kv.first.c_str(),
                (unsigned long long)kv.second, e ? (" --" + e->text).c_str() : "");
  }
  // A result that depends on what the worker ran before is only a machinery failure when nothing
  // reproducible came out of the batch; next to a confirmed violation of the same batch it is noted.
  if (!workerStateOnly.empty()) {
    if (reported > 0) std::printf("NOTE %zu further violation(s) were seen only after other plans in the same worker process and not from a fresh process (state carried between runs)\n", workerStateOnly.size());
    else for (auto &m : workerStateOnly) machineryErrors.push_back(m);
  }
  for (auto &m : machineryErrors) std::printf("MACHINERY-ERROR %s\n", m.c_str());

  Json st = Json::object();
  st["harness"] = h.name();
  st["property"] = a.property;
  st["tier"] = a.tier;
  st["seed"] = (unsigned long long)a.seed;
  st["workers"] = a.workers;
  st["runs_requested"] = (unsigned long long)a.runs;
  st["evaluations"] = (unsigned long long)evaluations;
  st["not_run_wall_cap"] = (unsigned long long)capped;
  st["violations"] = (unsigned long long)violations;
  st["violations_reported"] = reported;
  st["known_finding_hits"] = (unsigned long long)knownHits;
  st["distinct_hashes"] = (unsigned long long)allHashes.size();
  st["distinct_nontrivial"] = (unsigned long long)ntHashes.size();
  st["nontrivial_runs"] = (unsigned long long)nontrivialRuns;
  st["sim_cycles"] = (unsigned long long)simCycles;
  st["sim_instructions"] = (unsigned long long)simInstr;
  st["distinct_state_keys"] = (unsigned long long)keys.size();
  st["wall_s"] = wall;
  Json cj = Json::object();
  for (auto &kv : counters) cj[kv.first] = (unsigned long long)kv.second;
  st["counters"] = cj;
  Json nj = Json::object();
  for (auto &kv : notes) nj[kv.first] = (unsigned long long)kv.second;
  st["run_endings"] = nj;
  Json sj = Json::array();
  for (auto &s : samples) sj.push(s);
  st["samples"] = sj;
  Json kj = Json::array();
  { size_t n = 0; for (auto &k : keys) { if (n++ >= 40) break; kj.push(k); } }
  st["state_key_examples"] = kj;
  Json vj = Json::array();
  for (auto &r : reportedRecs) vj.push(r);
  st["reported"] = vj;
  Json mj = Json::array();
  for (auto &m : machineryErrors) mj.push(m);
  st["machinery_errors"] = mj;
  st["describe"] = h.describe();
  if (!a.outPath.empty()) writeFile(a.outPath, st.dump(1) + "\n");
  if (!slowRuns.empty() && !a.quiet && !a.hashesOnly) {
    std::sort(slowRuns.rbegin(), slowRuns.rend());
    std::string sl;
    for (size_t k = 0; k < slowRuns.size() && k < 5; k++) sl += " #" + std::to_string(slowRuns[k].second) + ":" + std::to_string(slowRuns[k].first) + "ms";
    std::printf("SLOW-RUNS %zu over 2 s, slowest%s\n", slowRuns.size(), sl.c_str());
  }
  if (!a.quiet) {
    std::printf("SUMMARY property=%s runs=%llu violations=%llu known=%llu distinct_nontrivial=%llu cycles=%llu wall=%.1fs\n",
                a.property.c_str(), (unsigned long long)evaluations, (unsigned long long)violations,
                (unsigned long long)knownHits, (unsigned long long)ntHashes.size(), (unsigned long long)simCycles, wall);
  }
  if (!machineryErrors.empty()) return 2;
  if (reported > 0) return 1;
  if (violations > 0) return 2;   // violations seen but none passed the gate: machinery problem
  return 0;
}

} // namespace sim
