// Seeded randomness for the simulator.  Everything random in a run derives from one 64-bit run seed.
// No logging path may touch an Rng.
#pragma once
#include <cstdint>
#include <cstddef>
#include <string>
#include <vector>

namespace sim {

inline uint64_t splitmix64(uint64_t &s) {
  uint64_t z = (s += 0x9E3779B97F4A7C15ull);
  z = (z ^ (z >> 30)) * 0xBF58476D1CE4E5B9ull;
  z = (z ^ (z >> 27)) * 0x94D049BB133111EBull;
  return z ^ (z >> 31);
}

inline uint64_t mix64(uint64_t a, uint64_t b, uint64_t c = 0) {
  uint64_t s = a * 0xD6E8FEB86659FD93ull + 0x1234567ull;
  uint64_t x = splitmix64(s);
  s ^= b * 0xA0761D6478BD642Full; x ^= splitmix64(s);
  s ^= c * 0xE7037ED1A0B428DBull; x ^= splitmix64(s);
  s ^= x; return splitmix64(s);
}

inline uint64_t hashStr(const std::string &s, uint64_t h = 1469598103934665603ull) {
  for (unsigned char c : s) { h ^= c; h *= 1099511628211ull; }
  return h;
}

class Rng {
  uint64_t s;
public:
  explicit Rng(uint64_t seed) : s(seed) {}
  uint64_t next() { return splitmix64(s); }
  uint32_t u32() { return (uint32_t)(next() >> 32); }
  // Uniform in [0, n).  n == 0 yields 0.
  uint64_t below(uint64_t n) { return n ? next() % n : 0; }
  // Uniform in [lo, hi].
  int64_t range(int64_t lo, int64_t hi) { return lo + (int64_t)below((uint64_t)(hi - lo + 1)); }
  bool chance(unsigned num, unsigned den) { return below(den) < num; }
  template <class T> const T &pick(const std::vector<T> &v) { return v[below(v.size())]; }
  Rng fork(uint64_t tag) { return Rng(mix64(next(), tag)); }
};

} // namespace sim
