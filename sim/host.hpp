// The simulated host: event log, byte-granular standard streams, in-memory file system behind
// fopen/fopen64, arena allocator behind operator new, dirty stack, exit()/crash trapping.
// Definitions (and the interposed symbols) are in host.cpp, linked exactly once per harness.
#pragma once
#include <csetjmp>
#include <csignal>
#include <cstdint>
#include <functional>
#include <iostream>
#include <map>
#include <streambuf>
#include <string>
#include <vector>

namespace sim {

//---------------------------------------------------------------------------------------------
// Event log: one global sequence number for every observable event of a run, and a rolling hash.
//---------------------------------------------------------------------------------------------
struct EventLog {
  uint64_t seq = 0;
  uint64_t h1 = 0x243F6A8885A308D3ull, h2 = 0x13198A2E03707344ull;
  bool keep = false;                    // keep a readable copy (replay / diagnosis only)
  std::vector<std::string> lines;
  void reset(bool keepLines = false) {
    seq = 0; h1 = 0x243F6A8885A308D3ull; h2 = 0x13198A2E03707344ull; keep = keepLines; lines.clear();
  }
  inline void mixIn(uint64_t v) {
    h1 = (h1 ^ v) * 0x100000001B3ull; h1 ^= h1 >> 29;
    h2 = (h2 + v) * 0x9E3779B97F4A7C15ull; h2 ^= h2 >> 32;
  }
  void ev(const char *kind, uint64_t a = 0, uint64_t b = 0, uint64_t c = 0);
  void evs(const char *kind, const std::string &s, uint64_t a = 0);
  // Hash-only (no sequence number, no text): for bulk state such as per-clock registers.
  inline void state(uint64_t a, uint64_t b) { mixIn(a); mixIn(b); }
  std::string hashHex() const;
};
extern EventLog g_log;

//---------------------------------------------------------------------------------------------
// Scope marker: code running on behalf of the harness (not the code under test).  While depth > 0
// the arena allocator is bypassed, so harness allocations never perturb what repo code sees.
//---------------------------------------------------------------------------------------------
extern thread_local int g_harnessDepth;
struct HarnessScope {
  HarnessScope() { g_harnessDepth++; }
  ~HarnessScope() { g_harnessDepth--; }
};

//---------------------------------------------------------------------------------------------
// Standard streams.
//---------------------------------------------------------------------------------------------
class SimInBuf : public std::streambuf {
  std::string data;
  size_t fetched = 0;       // bytes handed to the get area so far
  char cur = 0;
  int id;
  std::string block;        // block mode: what one read(2) of an unsynchronised cin would have fetched
public:
  bool eofReported = false;
  unsigned eofReads = 0;    // how often the reader hit end of data
  // Block mode models std::ios::sync_with_stdio(false): cin then owns a buffer and takes input from
  // the descriptor a block at a time, so the process consumes more than the program has looked at.
  bool blockMode = false;
  explicit SimInBuf(int id = 0) : id(id) { setg(&cur, &cur + 1, &cur + 1); }
  void load(const std::string &bytes) { data = bytes; fetched = 0; eofReported = false; eofReads = 0; blockMode = false; block.clear(); setg(&cur, &cur + 1, &cur + 1); }
  size_t consumed() const { return blockMode ? fetched : fetched - (gptr() < egptr() ? 1 : 0); }
  size_t size() const { return data.size(); }
protected:
  int_type underflow() override;
};

class SimOutBuf : public std::streambuf {
  int id;
  size_t cap;
public:
  std::string data;
  bool overflowed = false;
  explicit SimOutBuf(int id, size_t cap = 1 << 20) : id(id), cap(cap) {}
  void clear() { HarnessScope hs; data.clear(); overflowed = false; }
protected:
  int_type overflow(int_type c) override;
  std::streamsize xsputn(const char *s, std::streamsize n) override;
};

// Owns the three buffers and swaps them into std::cin/cout/cerr.
struct StdStreams;
extern StdStreams *g_stdStreams;      // the attached instance, for the sync_with_stdio seam
struct StdStreams {
  SimInBuf in{0};
  SimOutBuf out{1}, err{2};
  std::streambuf *oldIn = nullptr, *oldOut = nullptr, *oldErr = nullptr;
  bool attached = false;
  void attach(const std::string &input);
  void detach();
  ~StdStreams() { if (attached) detach(); }
};

//---------------------------------------------------------------------------------------------
// File system.  Relative paths and paths under /sim/ are simulated; everything else is real.
//---------------------------------------------------------------------------------------------
namespace fs {
void reset();
void put(const std::string &path, const std::string &bytes);
bool exists(const std::string &path);
std::string get(const std::string &path);
void remove(const std::string &path);
std::vector<std::string> list();
std::map<std::string, std::string> snapshot();
// Fault injection: opening `path` in a writing mode (w/a) or any mode fails with the given errno.
void failOpen(const std::string &path, int err, bool writesOnly);
void clearFaults();
// Descriptor 0: a process may be started with standard input closed (cron, daemons, `cmd <&-`).
// Then the first file the program opens is handed descriptor 0, and whatever reads "standard
// input" reads that file (at the shared offset) for as long as it stays open; with nothing
// readable on descriptor 0 a read fails, which the program sees as end of input.
// A path may be a pipe instead of a file (a FIFO, or /dev/stdout into a pipeline): it can be opened for
// writing, takes bytes in order, and cannot be positioned.  drainPipe() returns what was written.
void makePipe(const std::string &path);
bool isPipe(const std::string &path);
std::string drainPipe(const std::string &path);
void setStdinClosed(bool closed);
bool stdinClosed();
long readFd0(char *buf, size_t n);     // -1: nothing readable there (EBADF); 0: end of that file
struct Counters { uint64_t opens = 0, openFail = 0, openInjectedFail = 0, creates = 0, truncates = 0, fd0Taken = 0, fd0Reads = 0; };
extern Counters counters;
} // namespace fs

//---------------------------------------------------------------------------------------------
// Heap.
//---------------------------------------------------------------------------------------------
namespace heap {
enum Mode { PASSTHROUGH = 0, ZERO, ONES, PRNG, POINTERISH, STALE, NUM_MODES };
const char *modeName(int m);
int modeFromName(const std::string &s);
struct Config {
  int mode = PASSTHROUGH;
  uint64_t fillSeed = 0;
  uint64_t padSeed = 0;     // 0: no padding
  unsigned padMax = 0;      // maximum padding before a fresh block, in 16-byte units
  unsigned baseShift = 0;   // offset of the first block inside the slot, in 16-byte units
  bool shuffleRecycle = false; // pick recycled blocks in seeded order instead of LIFO
  bool scribbleFree = false;   // a freed block is overwritten at once (as MALLOC_PERTURB_ and allocator bookkeeping do)
};
// What an earlier operation in the same process left in the allocator: where the heap ended and which
// blocks it freed (they are handed out again first, last freed first, as real allocators do).
struct Carry {
  bool valid = false; int slot = -1; size_t bump = 0;
  std::vector<std::pair<uint32_t, char *>> freed;     // (size in 16-byte units, block), in the order they were freed
};
void begin(const Config &c, const Carry *carry = nullptr);
void end();
void saveCarry(Carry &out);      // after end(): the state begin() can continue from
struct Counters { uint64_t allocs = 0, fresh = 0, recycled = 0, bytes = 0, overflowToMalloc = 0, slot = 0, scribbled = 0, carried = 0, continuedBehindLeak = 0; };
extern Counters counters;
bool available();   // false in sanitizer builds (arena disabled)
} // namespace heap

//---------------------------------------------------------------------------------------------
// Stack: f runs on a private stack at a fixed address whose top `bytes` are filled from `seed`
// (everything below reads as zero), starting `shift` bytes below the top.
//---------------------------------------------------------------------------------------------
enum StackMode { STACK_CLEAN = 0, STACK_ZERO, STACK_ONES, STACK_PRNG, STACK_POINTERISH, STACK_NUM_MODES };
void callOnDirtyStack(int mode, size_t bytes, uint64_t seed, size_t shift, const std::function<void()> &f);
void disableAslrOnce(char **argv);     // re-executes the process once with ADDR_NO_RANDOMIZE

//---------------------------------------------------------------------------------------------
// Running code that may call exit(), throw, or crash.
//---------------------------------------------------------------------------------------------
struct Trapped {
  enum Kind { RETURNED, EXITED, THREW, CRASHED } kind = RETURNED;
  int status = 0;           // return value or exit() argument
  int signal = 0;
  std::string what;         // exception text
  std::string str() const;
};
// Runs f (which returns an int status).  exit() inside f unwinds to here by longjmp.
Trapped runTrapped(const std::function<int()> &f, unsigned watchdogSeconds = 0);   // SIGALRM after the watchdog counts as a crash
extern bool g_tainted;      // set after a trapped crash: the process state may be damaged

typedef int (*ToolMain)(int, const char **);
Trapped runTool(ToolMain fn, const std::vector<std::string> &argv);

//---------------------------------------------------------------------------------------------
// Clock and process identity.  While a simulated clock is active (the harness switches it on around
// code under test) time(), gettimeofday(), clock_gettime() and getpid() answer from the plan: the
// clock reads `base` seconds and advances one microsecond per reading.
//---------------------------------------------------------------------------------------------
namespace simclock {
void activate(uint64_t baseSeconds, int pid);
void deactivate();
uint64_t readings();      // how often the code under test looked at the clock or its pid
} // namespace simclock

void pinToCpu(int cpu);

} // namespace sim
