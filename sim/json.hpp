// Minimal JSON value, writer and parser (plans, replay files, result lines, stats).
#pragma once
#include <cstdint>
#include <cstdio>
#include <cstdlib>
#include <map>
#include <stdexcept>
#include <string>
#include <utility>
#include <vector>

namespace sim {

class Json {
public:
  enum Type { NUL, BOOL, INT, DBL, STR, ARR, OBJ };
  Type type = NUL;
  bool b = false;
  int64_t i = 0;
  double d = 0;
  std::string s;
  std::vector<Json> a;
  std::vector<std::pair<std::string, Json>> o;

  Json() {}
  Json(bool v) : type(BOOL), b(v) {}
  Json(int v) : type(INT), i(v) {}
  Json(unsigned v) : type(INT), i(v) {}
  Json(long v) : type(INT), i(v) {}
  Json(long long v) : type(INT), i(v) {}
  Json(unsigned long v) : type(INT), i((int64_t)v) {}
  Json(unsigned long long v) : type(INT), i((int64_t)v) {}
  Json(double v) : type(DBL), d(v) {}
  Json(const char *v) : type(STR), s(v) {}
  Json(const std::string &v) : type(STR), s(v) {}
  static Json array() { Json j; j.type = ARR; return j; }
  static Json object() { Json j; j.type = OBJ; return j; }

  bool isNull() const { return type == NUL; }
  bool isObj() const { return type == OBJ; }
  bool isArr() const { return type == ARR; }
  bool isStr() const { return type == STR; }
  bool isInt() const { return type == INT; }

  // Object access.
  const Json *find(const std::string &k) const {
    for (auto &kv : o) if (kv.first == k) return &kv.second;
    return nullptr;
  }
  Json *find(const std::string &k) {
    for (auto &kv : o) if (kv.first == k) return &kv.second;
    return nullptr;
  }
  bool has(const std::string &k) const { return find(k) != nullptr; }
  Json &operator[](const std::string &k) {
    if (type == NUL) type = OBJ;
    if (auto *p = find(k)) return *p;
    o.emplace_back(k, Json());
    return o.back().second;
  }
  const Json &at(const std::string &k) const {
    auto *p = find(k);
    if (!p) throw std::runtime_error("json: missing key " + k);
    return *p;
  }
  int64_t getInt(const std::string &k, int64_t def = 0) const {
    auto *p = find(k);
    if (!p) return def;
    if (p->type == INT) return p->i;
    if (p->type == BOOL) return p->b;
    if (p->type == DBL) return (int64_t)p->d;
    return def;
  }
  uint64_t getU64(const std::string &k, uint64_t def = 0) const {
    auto *p = find(k);
    if (!p) return def;
    if (p->type == STR) return std::strtoull(p->s.c_str(), nullptr, 0);
    return (uint64_t)getInt(k, (int64_t)def);
  }
  std::string getStr(const std::string &k, const std::string &def = "") const {
    auto *p = find(k);
    return (p && p->type == STR) ? p->s : def;
  }
  bool getBool(const std::string &k, bool def = false) const {
    auto *p = find(k);
    if (!p) return def;
    if (p->type == BOOL) return p->b;
    if (p->type == INT) return p->i != 0;
    return def;
  }
  void erase(const std::string &k) {
    for (size_t n = 0; n < o.size(); n++) if (o[n].first == k) { o.erase(o.begin() + n); return; }
  }
  // Array access.
  void push(const Json &v) { if (type == NUL) type = ARR; a.push_back(v); }
  size_t size() const { return type == ARR ? a.size() : type == OBJ ? o.size() : 0; }

  bool operator==(const Json &r) const {
    if (type != r.type) return false;
    switch (type) {
      case NUL: return true;
      case BOOL: return b == r.b;
      case INT: return i == r.i;
      case DBL: return d == r.d;
      case STR: return s == r.s;
      case ARR: return a == r.a;
      case OBJ: return o == r.o;
    }
    return false;
  }
  bool operator!=(const Json &r) const { return !(*this == r); }

  static void escape(const std::string &in, std::string &out) {
    out += '"';
    for (unsigned char c : in) {
      switch (c) {
        case '"': out += "\\\""; break;
        case '\\': out += "\\\\"; break;
        case '\n': out += "\\n"; break;
        case '\r': out += "\\r"; break;
        case '\t': out += "\\t"; break;
        default:
          if (c < 0x20 || c >= 0x7f) { char buf[8]; std::snprintf(buf, sizeof buf, "\\u%04x", c); out += buf; }
          else out += (char)c;
      }
    }
    out += '"';
  }
  void dumpTo(std::string &out, int indent = -1, int depth = 0) const {
    auto nl = [&](int dp) { if (indent >= 0) { out += '\n'; out.append((size_t)(indent * dp), ' '); } };
    switch (type) {
      case NUL: out += "null"; break;
      case BOOL: out += b ? "true" : "false"; break;
      case INT: out += std::to_string(i); break;
      case DBL: { char buf[40]; std::snprintf(buf, sizeof buf, "%.6g", d); out += buf; break; }
      case STR: escape(s, out); break;
      case ARR:
        out += '[';
        for (size_t n = 0; n < a.size(); n++) { if (n) out += ','; nl(depth + 1); a[n].dumpTo(out, indent, depth + 1); }
        if (!a.empty()) nl(depth);
        out += ']';
        break;
      case OBJ:
        out += '{';
        for (size_t n = 0; n < o.size(); n++) {
          if (n) out += ',';
          nl(depth + 1);
          escape(o[n].first, out); out += ':'; if (indent >= 0) out += ' ';
          o[n].second.dumpTo(out, indent, depth + 1);
        }
        if (!o.empty()) nl(depth);
        out += '}';
        break;
    }
  }
  std::string dump(int indent = -1) const { std::string r; dumpTo(r, indent); return r; }

  // Parser.
  static Json parse(const std::string &text) {
    size_t p = 0;
    Json v = parseValue(text, p);
    skipWs(text, p);
    if (p != text.size()) throw std::runtime_error("json: trailing characters");
    return v;
  }
private:
  static void skipWs(const std::string &t, size_t &p) {
    while (p < t.size() && (t[p] == ' ' || t[p] == '\n' || t[p] == '\t' || t[p] == '\r')) p++;
  }
  static Json parseValue(const std::string &t, size_t &p) {
    skipWs(t, p);
    if (p >= t.size()) throw std::runtime_error("json: unexpected end");
    char c = t[p];
    if (c == '{') {
      Json j = object(); p++;
      skipWs(t, p);
      if (p < t.size() && t[p] == '}') { p++; return j; }
      while (true) {
        skipWs(t, p);
        std::string k = parseString(t, p);
        skipWs(t, p);
        if (p >= t.size() || t[p] != ':') throw std::runtime_error("json: expected ':'");
        p++;
        j.o.emplace_back(k, parseValue(t, p));
        skipWs(t, p);
        if (p < t.size() && t[p] == ',') { p++; continue; }
        if (p < t.size() && t[p] == '}') { p++; return j; }
        throw std::runtime_error("json: expected ',' or '}'");
      }
    }
    if (c == '[') {
      Json j = array(); p++;
      skipWs(t, p);
      if (p < t.size() && t[p] == ']') { p++; return j; }
      while (true) {
        j.a.push_back(parseValue(t, p));
        skipWs(t, p);
        if (p < t.size() && t[p] == ',') { p++; continue; }
        if (p < t.size() && t[p] == ']') { p++; return j; }
        throw std::runtime_error("json: expected ',' or ']'");
      }
    }
    if (c == '"') return Json(parseString(t, p));
    if (t.compare(p, 4, "true") == 0) { p += 4; return Json(true); }
    if (t.compare(p, 5, "false") == 0) { p += 5; return Json(false); }
    if (t.compare(p, 4, "null") == 0) { p += 4; return Json(); }
    size_t q = p;
    bool isD = false;
    if (q < t.size() && (t[q] == '-' || t[q] == '+')) q++;
    while (q < t.size() && (isdigit((unsigned char)t[q]) || t[q] == '.' || t[q] == 'e' || t[q] == 'E' || t[q] == '-' || t[q] == '+')) {
      if (t[q] == '.' || t[q] == 'e' || t[q] == 'E') isD = true;
      q++;
    }
    if (q == p) throw std::runtime_error("json: unexpected character");
    std::string num = t.substr(p, q - p);
    p = q;
    if (isD) return Json(std::strtod(num.c_str(), nullptr));
    return Json((long long)std::strtoll(num.c_str(), nullptr, 10));
  }
  static std::string parseString(const std::string &t, size_t &p) {
    if (p >= t.size() || t[p] != '"') throw std::runtime_error("json: expected string");
    p++;
    std::string r;
    while (p < t.size() && t[p] != '"') {
      char c = t[p++];
      if (c == '\\') {
        if (p >= t.size()) break;
        char e = t[p++];
        switch (e) {
          case 'n': r += '\n'; break;
          case 't': r += '\t'; break;
          case 'r': r += '\r'; break;
          case 'b': r += '\b'; break;
          case 'f': r += '\f'; break;
          case 'u': {
            unsigned v = (unsigned)std::strtoul(t.substr(p, 4).c_str(), nullptr, 16);
            p += 4;
            if (v < 0x100) r += (char)v;        // bytes only; the writer never emits more
            else r += '?';
            break;
          }
          default: r += e;
        }
      } else r += c;
    }
    if (p >= t.size()) throw std::runtime_error("json: unterminated string");
    p++;
    return r;
  }
};

inline std::string toHex(const std::string &bytes) {
  static const char *d = "0123456789abcdef";
  std::string r;
  r.reserve(bytes.size() * 2);
  for (unsigned char c : bytes) { r += d[c >> 4]; r += d[c & 15]; }
  return r;
}
inline std::string fromHex(const std::string &hex) {
  std::string r;
  auto v = [](char c) { return c >= '0' && c <= '9' ? c - '0' : c >= 'a' && c <= 'f' ? c - 'a' + 10 : c >= 'A' && c <= 'F' ? c - 'A' + 10 : 0; };
  for (size_t n = 0; n + 1 < hex.size(); n += 2) r += (char)((v(hex[n]) << 4) | v(hex[n + 1]));
  return r;
}

} // namespace sim
