// tbsim: hextb's own main()/load()/run()/handleSyscall() executed in-process under the simulated
// streams, file layer and power-on state.
//   C13  results do not depend on the power-on state (outcome equality + invariants before reset)
//   C06  a binary behaves identically on hextb and on hexsim
#include "sim/driver.hpp"
#include <fcntl.h>
#include <sys/stat.h>
#include "model/hexref.hpp"

#include <verilated.h>
#include "Vhex_pkg.h"
#include "Vhex_pkg_hex.h"
#include "Vhex_pkg_memory.h"
#include "Vhex_pkg_processor.h"
#include "hex.hpp"
#include "hexsimio.hpp"

// Real code from /repo/hextb.cpp (compiled with -Dmain=hextb_main -DHEX_VERIF) and hexsim.cpp.
int hextb_main(int argc, const char **argv);
int hexsim_main(int argc, const char **argv);
// TBSIM_NO_PLANT: the tree's hextb.cpp no longer has load()/run() with these signatures (bin/vbuild.py falls back to this when the
// link fails): planted runs then go through main() with a power-on seed derived from the plan (seeded C06-15).
#ifndef TBSIM_NO_PLANT
void load(const char *filename, const std::unique_ptr<Vhex_pkg> &top);
int run(const std::unique_ptr<VerilatedContext> &contextp, const std::unique_ptr<Vhex_pkg> &top, bool trace, size_t maxCycles);
#endif
extern bool (*hexVerifTick)(VerilatedContext *, Vhex_pkg *);
extern hex::HexSimIO io;

using sim::Json;
using sim::Outcome;
using sim::Rng;

namespace {

const uint32_t RTLW = hexref::W_RTL;
const uint32_t HW = hexref::W_HEXSIM;

struct CorpusEntry { std::string name, kind, file, image; std::vector<std::string> inputs; };
std::vector<CorpusEntry> g_corpus;
std::vector<size_t> g_big;         // indices of the large binaries
void loadCorpus() {
  const char *p = getenv("VERIF_CORPUS");
  if (!p || !*p) return;
  std::string text = sim::readFile(p);
  if (text.empty()) return;
  Json j = Json::parse(text);
  for (auto &e : j.a) {
    CorpusEntry c;
    c.name = e.getStr("name"); c.kind = e.getStr("kind");
    c.file = sim::fromHex(e.getStr("file_hex"));
    c.image = sim::fromHex(e.getStr("image_hex"));
    if (auto *in = e.find("inputs")) for (auto &i : in->a) c.inputs.push_back(sim::fromHex(i.s));
    if (!c.file.empty()) { if (c.kind == "asmbig") g_big.push_back(g_corpus.size()); g_corpus.push_back(c); }
  }
}
const CorpusEntry *corpusByName(const std::string &n) {
  for (auto &c : g_corpus) if (c.name == n) return &c;
  return nullptr;
}
std::string imageOfFile(const std::string &file) {
  if (file.size() < 4) return "";
  uint32_t words = 0;
  std::memcpy(&words, file.data(), 4);
  size_t bytes = (size_t)words * 4;
  if (4 + bytes > file.size()) return file.substr(4);
  return file.substr(4, bytes);
}
std::string hx(uint32_t v) { char b[16]; std::snprintf(b, sizeof b, "%08x", v); return b; }

//---------------------------------------------------------------------------------------------
// What a run of a tool left behind.
//---------------------------------------------------------------------------------------------
struct ToolOutcome {
  sim::Trapped t;
  std::string out, err;
  size_t consumed = 0;
  std::map<std::string, std::string> files;   // simout<n>
  bool hung = false;
  std::string str() const {
    return t.str() + " stdout=" + sim::toHex(out.substr(0, 40)) + (out.size() > 40 ? ".." : "") + " consumed=" + std::to_string(consumed) + (hung ? " hung" : "");
  }
  int status8() const { return t.status & 0xFF; }
};

void resetTbGlobals() {
  // hextb.cpp keeps its stream router in a global; a fresh process starts with a fresh one.
  sim::HarnessScope hs;
  io.~HexSimIO();
  new (&io) hex::HexSimIO(std::cin, std::cout);
}

//---------------------------------------------------------------------------------------------
// Invariants inside hextb's own run() loop (hook H2).
//---------------------------------------------------------------------------------------------
struct TickState {
  bool active = false;
  bool planted = false;          // snapshot available
  std::vector<uint32_t> snapshot;
  uint32_t pPc = 0, pA = 0, pB = 0, pO = 0;
  bool regsKnown = false;
  std::string image;             // program words of the binary
  bool resetSeen = false, released = false;
  uint64_t ticks = 0, edges = 0;
  size_t bannerLen = 0;
  sim::StdStreams *ss = nullptr;
  std::string violation, vsig;
  uint64_t releaseTime = 0;
  uint64_t maxTicks = 0;
  bool hung = false;
  bool lastResetTickOk = false;
  std::string lastResetWhy = "reset was never seen asserted";
  uint64_t jumpAfter = 0, jumpTo = 0;    // simulated-time jump: that many ticks after reset was released, time becomes jumpTo
  uint64_t sinceRelease = 0;
  bool jumped = false;
} g_tick;

void tickViolate(const std::string &sig, const std::string &what) {
  if (g_tick.violation.empty()) { sim::HarnessScope hs; g_tick.violation = what; g_tick.vsig = sig; }
}

bool tickFn(VerilatedContext *ctx, Vhex_pkg *top) {
  TickState &s = g_tick;
  if (!s.active) return true;
  s.ticks++;
  if (s.maxTicks && s.ticks > s.maxTicks) { s.hung = true; return false; }
  if (s.released) {
    // The testbench's time only feeds the reset window and the trace: it may jump (keeping its parity).
    if (s.jumpTo && !s.jumped && ++s.sinceRelease >= s.jumpAfter) { s.jumped = true; ctx->time((s.jumpTo & ~1ull) | (ctx->time() & 1)); }
    return true;
  }
  auto *proc = top->hex->u_processor;
  uint32_t *mem = top->hex->u_memory->memory_q.data();
  if (s.ticks == 1 && !s.planted && s.ss) s.bannerLen = s.ss->out.data.size();   // load() has printed the banner
  if (s.resetSeen && !top->i_rst) {
    // Reset has been asserted and released: execution proper begins; nothing more to watch.  The
    // last tick under reset must have shown the start state with the image intact.
    s.released = true;
    s.releaseTime = ctx->time();
    if (!s.lastResetTickOk) tickViolate("invariant_before_reset:not_in_start_state", s.lastResetWhy + " when reset was released");
    return true;
  }
  std::string at = " (time " + std::to_string(ctx->time()) + ")";
  // Until reset has been asserted and released: nothing serviced, stored or executed.
  if (s.ss) {
    if (s.ss->in.consumed() != 0) tickViolate("invariant_before_reset:input_pulled", "a byte was pulled from stdin before reset completed" + at);
    if (s.ss->out.data.size() > s.bannerLen) tickViolate("invariant_before_reset:output_written", "a byte was written to stdout before reset completed" + at);
  }
  if (s.planted && std::memcmp(mem, s.snapshot.data(), (size_t)RTLW * 4) != 0) {
    uint32_t a = 0;
    while (a < RTLW && mem[a] == s.snapshot[a]) a++;
    tickViolate(a < s.image.size() / 4 ? "invariant_before_reset:image_overwritten" : "invariant_before_reset:stored",
                "memory word " + hx(a) + " changed from " + hx(s.snapshot[a]) + " to " + hx(mem[a]) + " before reset completed" + at);
    s.snapshot[a] = mem[a];
  }
  if (s.regsKnown) {
    // "Executed": a register holds something that is neither its power-on value nor its reset value.
    // (Under Verilator the first eval() may or may not see an edge, so reset can take until the
    // second rising edge to show; what must never show is the effect of an instruction.)
    auto okReg = [](uint32_t v, uint32_t planted) { return v == planted || v == 0; };
    if (!okReg(proc->pc_q, s.pPc & 0x1FFFFF) || !okReg(proc->areg_q, s.pA) || !okReg(proc->breg_q, s.pB) || !okReg(proc->oreg_q, s.pO))
      tickViolate("invariant_before_reset:executed", "an instruction was executed before reset completed" + at + ": pc=" + hx(proc->pc_q) + " areg=" + hx(proc->areg_q) +
                  " breg=" + hx(proc->breg_q) + " oreg=" + hx(proc->oreg_q) + ", power-on " + hx(s.pPc & 0x1FFFFF) + "/" + hx(s.pA) + "/" + hx(s.pB) + "/" + hx(s.pO));
  }
  if (top->i_rst) {
    s.resetSeen = true;
    s.lastResetTickOk = true;
    if (proc->pc_q != 0 || proc->areg_q != 0 || proc->breg_q != 0 || proc->oreg_q != 0) { s.lastResetTickOk = false; s.lastResetWhy = "registers were not zero"; }
    else if (!s.image.empty() && std::memcmp(mem, s.image.data(), s.image.size()) != 0) { s.lastResetTickOk = false; s.lastResetWhy = "the loaded image differed from the file"; }
  }
  return true;
}

//---------------------------------------------------------------------------------------------
// Plan view
//---------------------------------------------------------------------------------------------
struct PlanView {
  std::string mode;                   // c13 | c06
  std::string file, image, input, progName;
  uint64_t maxCycles = 50000;
  bool hasPoweron = false; uint64_t poweron = 1;
  uint64_t jumpAfter = 0, jumpTo = 0;    // hextb's simulation time jumps after reset (C06)
  bool stdinClosed = false;    // the process is started with descriptor 0 closed (sim::fs::setStdinClosed)
  bool hasPlant = false; uint32_t pc = 0, a = 0, b = 0, o = 0;
  std::string memKind = "random"; uint64_t memSeed = 0;
  std::vector<std::pair<uint32_t, uint32_t>> words;   // planted words (outside the loaded file)
  std::string simin[8]; bool siminPresent[8] = {};
  bool trace = false;               // run hextb with -t (C13 only)
};
PlanView view(const Json &plan) {
  PlanView v;
  const Json &cfg = plan.at("config");
  v.mode = cfg.getStr("mode", "c13");
  v.maxCycles = cfg.getU64("max_cycles", 50000);
  for (auto &op : plan.at("ops").a) {
    std::string k = op.getStr("op");
    if (k == "program") {
      if (op.has("file_b16")) v.file = sim::fromHex(op.getStr("file_b16"));
      else if (auto *c = corpusByName(op.getStr("corpus"))) v.file = c->file;
      v.progName = op.getStr("corpus", op.getStr("from_corpus", "embedded"));
    } else if (k == "input") v.input = sim::fromHex(op.getStr("hex"));
    else if (k == "poweron") { v.hasPoweron = true; v.poweron = 1 + op.getU64("seed") % 0x7FFFFFFEull; }
    else if (k == "plant") { v.hasPlant = true; v.pc = (uint32_t)op.getU64("pc"); v.a = (uint32_t)op.getU64("areg"); v.b = (uint32_t)op.getU64("breg"); v.o = (uint32_t)op.getU64("oreg"); }
    else if (k == "plant_mem") { v.hasPlant = true; v.memKind = op.getStr("kind", "random"); v.memSeed = op.getU64("seed"); }
    else if (k == "plant_word") { v.hasPlant = true; v.words.push_back({(uint32_t)op.getU64("addr") % RTLW, (uint32_t)op.getU64("value")}); }
    else if (k == "simin") { unsigned i = (unsigned)(op.getU64("idx") & 7); v.siminPresent[i] = true; v.simin[i] = sim::fromHex(op.getStr("hex")); }
    else if (k == "options") v.trace = op.getBool("trace");
    else if (k == "stdin_closed") v.stdinClosed = true;
    else if (k == "time_jump") { v.jumpAfter = 1 + op.getU64("after") % 5000; v.jumpTo = op.getU64("to"); }
  }
  if (v.stdinClosed) v.input.clear();        // nothing can be read from a closed descriptor
  v.image = imageOfFile(v.file);
  return v;
}

// hexref's verdict on a (binary, input) pair.
struct Classified {
  bool judged = false;         // terminates by EXIT inside the budget, inside the domain
  std::string why;
  uint64_t steps = 0;
  uint32_t exitValue = 0;
  bool exitStubEdge = false;
  std::string out; size_t consumed = 0;
  std::string fileOut[8]; bool fileOutCreated[8] = {};
  unsigned syscalls = 0;
  bool usesFileStreams = false;
};
hexref::Machine *g_ref;
Classified classify(const PlanView &v, bool needWritten) {
  Classified c;
  hexref::Machine &m = *g_ref;
  hexref::Io rio; rio.input = v.input; rio.keepHistory = false;
  for (int k = 0; k < 8; k++) if (v.siminPresent[k]) { rio.fileExists[k] = true; rio.fileIn[k] = v.simin[k]; }
  m.clearMemory();
  m.taint = true;      // loading an unwritten word is harmless; using its value is not
  m.reset(); m.io = &rio;
  m.loadImage(v.image);
  uint64_t budget = v.maxCycles;
  for (; c.steps < budget; c.steps++) {
    hexref::Domain d = m.classifyNext(true, needWritten);
    if (d == hexref::D_READ_UNWRITTEN) {
      // The exit stub reads back the word it has just stored above the stack: written, fine.  Any
      // other read of an unwritten word puts the program outside C06/C13's "well-defined".
      c.why = "read_unwritten"; return c;
    }
    if (d != hexref::D_OK) { c.why = hexref::domainName(d); return c; }
    m.step();
    // C13 is about hextb alone, whose memory has 2^19 words: a stack above hexsim's 200000 words is
    // as good as any (the model is RTL-sized).  C06 compares with hexsim and stays below.
    if (m.last.maxAddr >= HW && v.mode != "c13") {
      // The exit stub stores to and reads back word 200001 (sp+2 with the initial sp of 199999): C06
      // and C13 cover such binaries explicitly.  Anything else above hexsim's array is outside.
      // Only the stub itself ("STAI 2; LDAC 0; OPR SVC" and the EXIT that reads the slot back): any other
      // access up there corrupts hexsim's own object and what follows is undefined.
      bool stubStore = m.last.wrote && !m.last.syscall && (m.pc + 1) < RTLW * 4 && m.byteAt(m.pc) == 0x30 && m.byteAt(m.pc + 1) == 0xD3;
      bool stubExit = m.last.exited && c.exitStubEdge;
      if (m.last.maxAddr <= HW + 2 && (stubStore || stubExit)) c.exitStubEdge = true; else { c.why = "access_above_hexsim_memory"; return c; }
    }
    if (m.last.syscall) c.syscalls++;
    if (m.last.exited) {
      c.judged = true; c.exitValue = m.exitValue; c.steps++;
      c.out = rio.out; c.consumed = rio.inPos;
      for (int k = 0; k < 8; k++) { c.fileOut[k] = rio.fileOut[k]; c.fileOutCreated[k] = rio.fileOutCreated[k]; }
      if (rio.missingFileReads) { c.judged = false; c.why = "read_missing_simin"; }
      for (int k = 0; k < 8; k++) if (rio.fileMode[k] != hexref::Io::CLOSED) c.usesFileStreams = true;
      return c;
    }
  }
  c.why = "no_exit_in_budget";
  return c;
}

//---------------------------------------------------------------------------------------------
class TbSim : public sim::Harness {
public:
  const char *name() const override { return "tbsim"; }
  sim::StdStreams ss;

  void workerInit() override {
    if (g_ref) return;
    loadCorpus();
    g_ref = new hexref::Machine(RTLW);
    g_ref->enableWrittenTracking();
    hexVerifTick = tickFn;
  }

  Json describe() override {
    Json d = Json::object();
    Json real = Json::array(), stub = Json::array();
    real.push("hextb.cpp main/load/run/handleSyscall and its global stream router (working tree, -DHEX_VERIF -Dmain=hextb_main)");
    real.push("Verilated hex.sv/processor.sv/memory.sv with the flags of CMakeLists.txt (+ --public-flat-rw), Verilator runtime and its +verilator+seed randomisation");
    real.push("hexsim.cpp main + hexsim.hpp (C06 comparison side); libstdc++ streams and filebufs");
    stub.push("stdin/stdout/stderr (byte-granular simulator streambufs)"); stub.push("files: binary, simin<n>/simout<n>, logs/ (memfd table behind fopen/fopen64/mkdir)");
    stub.push("power-on state when planted (registers and non-image memory written between the real load() and run())"); stub.push("process start/exit (exit() trapped)");
    d["real"] = real; d["stubbed"] = stub;
    d["oracle"] = property == "C13" ? "outcome of the same (binary, input) with all-zero power-on state, plus invariants evaluated after every eval() of hextb's own loop (hook H2)"
                                     : "hexsim_main on the same binary and scripted input; hexref only selects the judged pairs";
    d["corpus_programs"] = (unsigned long long)g_corpus.size();
    return d;
  }

  //-------------------------------------------------------------------------------------------
  Json generate(uint64_t runSeed, uint64_t index) override {
    (void)index;
    Rng r(runSeed);
    Json plan = Json::object(), cfg = Json::object(), ops = Json::array();
    bool c13 = property == "C13";
    cfg["mode"] = c13 ? "c13" : "c06";
    cfg["max_cycles"] = (unsigned long long)(tier == "thorough" ? 400000 : 100000);
    const CorpusEntry *ce = g_corpus.empty() ? nullptr : &g_corpus[r.below(g_corpus.size())];
    // Small programs dominate; the big ones (the X compiler compiling itself) only rarely.
    for (int tries = 0; ce && ce->file.size() > 20000 && tries < 3 && !r.chance(1, 50); tries++) ce = &g_corpus[r.below(g_corpus.size())];
    // Binaries of several hundred kilobytes get their own share (loader limits show only there).
    if (!g_big.empty() && r.chance(1, 25)) ce = &g_corpus[g_big[r.below(g_big.size())]];
    {
      Json op = Json::object(); op["op"] = "program";
      if (ce) op["corpus"] = ce->name; else op["file_b16"] = sim::toHex(std::string("\x02\x00\x00\x00\x97\x00\x00\x00\x00\x00\x00\x00", 12));
      ops.push(op);
    }
    {
      std::string in;
      if (ce && !ce->inputs.empty() && r.chance(3, 4)) in = ce->inputs[r.below(ce->inputs.size())];
      else { size_t n = (size_t)r.below(6); if (r.chance(1, 40)) n = (r.chance(1, 2) ? 4094 : 8190) + (size_t)r.below(5);     // around a 4096-byte buffer boundary
             for (size_t k = 0; k < n; k++) in.push_back((char)(n > 100 ? 32 + r.below(95) : r.chance(1, 4) ? r.below(256) : 1 + r.below(12))); }
      // EOF instant: shorter than, equal to, longer than what the program reads.
      unsigned e = (unsigned)r.below(4);
      if (e == 0 && !in.empty()) in.resize((size_t)r.below(in.size()));
      else if (e == 1) { size_t extra = 1 + (size_t)r.below(4); for (size_t k = 0; k < extra; k++) in.push_back((char)r.below(256)); }
      Json op = Json::object(); op["op"] = "input"; op["hex"] = sim::toHex(in); ops.push(op);
    }
    // File streams: generated programs read simin<n>; present, empty or (rarely) absent.
    if (ce && (ce->kind == "xgen" || ce->kind == "asmgen")) {
      static const unsigned idx[] = {1, 2, 5, 0, 7};
      for (unsigned q = 0; q < 3; q++) {
        if (r.chance(1, 8)) continue;          // absent: the pair is then not judged if the program reads it
        Json op = Json::object(); op["op"] = "simin"; op["idx"] = idx[q];
        std::string d; size_t n = (size_t)r.below(6); for (size_t z = 0; z < n; z++) d.push_back((char)r.below(256));
        op["hex"] = sim::toHex(d);
        ops.push(op);
      }
    }
    if (c13 && r.chance(1, 4)) { Json op = Json::object(); op["op"] = "options"; op["trace"] = true; ops.push(op); }   // hextb -t
    uint32_t fileWords = ce ? (uint32_t)((ce->file.size() - 4 + 3) / 4) : 2;
    uint32_t imgBytes = ce ? (uint32_t)ce->image.size() : 8;
    bool plant = c13 ? r.chance(3, 5) : r.chance(1, 6);
    if (!plant) {
      Json op = Json::object(); op["op"] = "poweron"; op["seed"] = (unsigned long long)(r.next() >> 20); ops.push(op);
      // The process may be started with standard input closed: the first file the tool opens and keeps
      // open is then what the program reads as its console.
      if (!c13 && r.chance(1, 10)) { Json sc = Json::object(); sc["op"] = "stdin_closed"; ops.push(sc); }
      // hextb's simulation time jumps to just below a power of two some ticks after reset.
      if (!c13 && r.chance(1, 6)) {
        static const unsigned bits[] = {16, 24, 31, 32, 32, 33, 48, 62};
        Json tj = Json::object(); tj["op"] = "time_jump"; tj["after"] = (unsigned long long)r.below(r.chance(1, 2) ? 40 : 3000);
        tj["to"] = (unsigned long long)((1ull << bits[r.below(8)]) - r.below(200)); ops.push(tj);
      }
    } else {
      // Adversarial power-on state: garbage pc pointing at a byte that decodes to a store or an SVC,
      // operand/base registers aimed at the image, the stack pointer word or the stack.
      uint32_t gw = fileWords + 4 + (uint32_t)r.below(2000);      // a word outside the loaded file
      unsigned shape = (unsigned)r.below(8);
      uint8_t opc;
      switch (shape) { case 0: case 1: opc = 0xD3; break; case 2: opc = 0x20 | (uint8_t)r.below(16); break; case 3: opc = 0x80 | (uint8_t)r.below(16); break;
                       case 4: opc = 0x21; break; case 5: opc = 0x82; break; default: opc = (uint8_t)r.below(256); }
      uint32_t word = r.u32();
      unsigned lane = (unsigned)r.below(4);
      word = (word & ~(0xFFu << (lane * 8))) | ((uint32_t)opc << (lane * 8));
      Json pw = Json::object(); pw["op"] = "plant_word"; pw["addr"] = gw; pw["value"] = word; ops.push(pw);
      Json pl = Json::object(); pl["op"] = "plant";
      pl["pc"] = r.chance(5, 6) ? gw * 4 + lane : (uint32_t)r.below(1 << 21);
      pl["areg"] = r.chance(2, 3) ? (uint32_t)r.below(4) : r.u32();
      uint32_t targets[] = {0, 1, (uint32_t)r.below(imgBytes / 4 + 1), 199999, 200000, 199990 + (uint32_t)r.below(12), r.u32()};
      uint32_t tgt = targets[r.below(7)];
      pl["breg"] = r.chance(1, 2) ? tgt : r.u32();
      pl["oreg"] = r.chance(1, 2) ? 0u : r.chance(1, 2) ? (tgt & ~15u) : (uint32_t)(r.below(16) << 4);
      ops.push(pl);
      Json pm = Json::object(); pm["op"] = "plant_mem";
      static const char *kinds[] = {"random", "svc", "stores", "zero", "ones"};
      pm["kind"] = kinds[r.below(5)]; pm["seed"] = (unsigned long long)(r.next() >> 20);
      ops.push(pm);
    }
    plan["config"] = cfg;
    plan["ops"] = ops;
    return plan;
  }

  Json materialise(const Json &plan) override {
    Json p = plan;
    for (auto &op : p["ops"].a)
      if (op.getStr("op") == "program" && op.has("corpus"))
        if (auto *c = corpusByName(op.getStr("corpus"))) { op["file_b16"] = sim::toHex(c->file); op["from_corpus"] = op.getStr("corpus"); op.erase("corpus"); }
    return p;
  }
  bool removable(const Json &op) override { return op.getStr("op") != "program"; }
  bool crashProne() override { return true; }
  std::vector<Json> simplifyOp(const Json &op) override {
    // The binary is a toolchain product: do not let the shrinker chew on its bytes.
    (void)op; return {};
  }

  //-------------------------------------------------------------------------------------------
  // One hextb execution.
  //-------------------------------------------------------------------------------------------
  void stageFiles(const PlanView &v) {
    sim::fs::reset();
    sim::fs::put("prog.bin", v.file);
    for (int k = 0; k < 8; k++) if (v.siminPresent[k]) sim::fs::put("simin" + std::to_string(k), v.simin[k]);
  }
  void collect(ToolOutcome &t) {
    // hextb's stream router is a global: in a real process its files are flushed and closed by the
    // static destructors at exit.  Do the same before looking at what the run left behind.
    resetTbGlobals();
    t.out = ss.out.data; t.err = ss.err.data; t.consumed = ss.in.consumed();
    for (int k = 0; k < 8; k++) { std::string n = "simout" + std::to_string(k); if (sim::fs::exists(n)) t.files[n] = sim::fs::get(n); }
    size_t nl = t.out.find('\n');
    t.out = nl == std::string::npos ? std::string() : t.out.substr(nl + 1);   // after the load banner
  }

  // Through the real main(): power-on state from Verilator's own randomisation.
  ToolOutcome runTbMain(const PlanView &v, uint64_t seed, uint64_t watchdog, std::string *inv, bool trace = false) {
    stageFiles(v);
    resetTbGlobals();
    ss.attach(v.input);
    g_tick = TickState();
    g_tick.active = true; g_tick.ss = &ss; g_tick.image = v.image; g_tick.maxTicks = watchdog * 2 + 64;
    g_tick.jumpAfter = v.jumpAfter; g_tick.jumpTo = v.jumpTo;
    g_tick.bannerLen = std::string::npos;      // learnt below: the banner is printed by load()
    // The banner length is not known before load(); treat everything up to the first newline as banner.
    g_tick.bannerLen = 64;
    std::vector<std::string> argv = {"hextb", "prog.bin", "+verilator+seed+" + std::to_string(seed), "--max-cycles", std::to_string(watchdog)};
    if (trace) argv.push_back("-t");
    ToolOutcome t;
    sim::simclock::activate(1000000000ull, 4242);
    t.t = sim::runTool(hextb_main, argv);
    sim::simclock::deactivate();
    g_tick.active = false;
    t.hung = g_tick.hung;
    collect(t);
    if (inv && !g_tick.violation.empty()) *inv = g_tick.vsig + "|" + g_tick.violation;
    ss.detach();
    return t;
  }

  // load() and run() called directly, with the power-on state written in between.
  ToolOutcome runTbPlanted(const PlanView &v, bool allZero, uint64_t watchdog, std::string *inv, bool trace = false) {
#ifdef TBSIM_NO_PLANT
    return runTbMain(v, allZero ? 4711 : 1 + sim::mix64(v.memSeed, v.pc) % 0x7FFFFFF0ull, watchdog, inv, trace);
#else
    stageFiles(v);
    resetTbGlobals();
    ss.attach(v.input);
    g_tick = TickState();
    ToolOutcome t;
    sim::simclock::activate(1000000000ull, 4242);
    t.t = sim::runTrapped([&]() -> int {
      const std::unique_ptr<VerilatedContext> contextp{new VerilatedContext};
      contextp->debug(0);
      contextp->randReset(2);
      // Registers and memory are planted below; everything else Verilator randomises (notably the
      // edge-detector state that decides whether the very first eval() sees a clock or reset edge)
      // follows the plan too.
      contextp->randSeed(allZero ? 4711 : (int)(1 + sim::mix64(v.memSeed, v.pc) % 0x7FFFFFF0ull));
      contextp->traceEverOn(true);
      const char *av[] = {"hextb", "prog.bin", nullptr};
      contextp->commandArgs(2, av);
      const std::unique_ptr<Vhex_pkg> top{new Vhex_pkg{contextp.get(), "TOP"}};
      load("prog.bin", top);
      {
        sim::HarnessScope hs;
        auto *proc = top->hex->u_processor;
        uint32_t *mem = top->hex->u_memory->memory_q.data();
        uint32_t fileWords = (uint32_t)((v.file.size() - 4 + 3) / 4);
        if (allZero) {
          std::memset(mem + fileWords, 0, (size_t)(RTLW - fileWords) * 4);
          proc->pc_q = proc->areg_q = proc->breg_q = proc->oreg_q = 0;
        } else {
          uint64_t s = sim::mix64(v.memSeed, 3);
          for (uint32_t a = fileWords; a < RTLW; a++) {
            uint32_t w;
            if (v.memKind == "svc") w = 0xD3D3D3D3u;
            else if (v.memKind == "zero") w = 0;
            else if (v.memKind == "ones") w = 0xFFFFFFFFu;
            else if (v.memKind == "stores") { uint64_t x = sim::splitmix64(s); w = 0x20802080u | ((uint32_t)x & 0x0F0F0F0Fu); }
            else w = (uint32_t)sim::splitmix64(s);
            mem[a] = w;
          }
          for (auto &pw : v.words) if (pw.first >= fileWords) mem[pw.first] = pw.second;
          proc->pc_q = v.pc & 0x1FFFFF; proc->areg_q = v.a; proc->breg_q = v.b; proc->oreg_q = v.o;
        }
        g_tick.active = true; g_tick.ss = &ss; g_tick.image = v.image; g_tick.maxTicks = watchdog * 2 + 64;
        g_tick.planted = true; g_tick.snapshot.assign(mem, mem + RTLW);
        g_tick.regsKnown = true; g_tick.pPc = proc->pc_q; g_tick.pA = proc->areg_q; g_tick.pB = proc->breg_q; g_tick.pO = proc->oreg_q;
        g_tick.bannerLen = ss.out.data.size();
      }
      return run(contextp, top, trace, watchdog);
    });
    sim::simclock::deactivate();
    g_tick.active = false;
    t.hung = g_tick.hung;
    collect(t);
    if (inv && !g_tick.violation.empty()) *inv = g_tick.vsig + "|" + g_tick.violation;
    g_tick.snapshot.clear(); g_tick.snapshot.shrink_to_fit();
    ss.detach();
    return t;
#endif
  }

  ToolOutcome runHexsim(const PlanView &v, uint64_t watchdog) {
    stageFiles(v);
    ss.attach(v.input);
    std::vector<std::string> argv = {"hexsim", "prog.bin", "--max-cycles", std::to_string(watchdog)};
    ToolOutcome t;
    sim::simclock::activate(1000000000ull, 4242);
    t.t = sim::runTool(hexsim_main, argv);
    sim::simclock::deactivate();
    t.out = ss.out.data; t.err = ss.err.data; t.consumed = ss.in.consumed();
    for (int k = 0; k < 8; k++) { std::string n = "simout" + std::to_string(k); if (sim::fs::exists(n)) t.files[n] = sim::fs::get(n); }
    ss.detach();
    return t;
  }

  static std::string diffOutcome(const ToolOutcome &a, const ToolOutcome &b, bool status8) {
    if (a.t.kind != b.t.kind) return "ended differently: " + a.t.str() + " vs " + b.t.str();
    if (a.t.kind == sim::Trapped::THREW && a.t.what != b.t.what) return "different exception: " + a.t.what + " vs " + b.t.what;
    if (a.hung != b.hung) return std::string("watchdog: ") + (a.hung ? "first hung" : "second hung");
    if (status8 ? a.status8() != b.status8() : a.t.status != b.t.status) return "exit status " + std::to_string(a.t.status) + " vs " + std::to_string(b.t.status);
    if (a.out != b.out) return "stdout " + sim::toHex(a.out.substr(0, 32)) + " (" + std::to_string(a.out.size()) + " bytes) vs " + sim::toHex(b.out.substr(0, 32)) + " (" + std::to_string(b.out.size()) + " bytes)";
    if (a.consumed != b.consumed) return "stdin consumed " + std::to_string(a.consumed) + " vs " + std::to_string(b.consumed);
    if (a.files != b.files) return "simout files differ";
    return "";
  }

  // The injected power-on state is part of the run's history.
  void logFaults(const PlanView &v) {
    sim::g_log.evs("program", v.progName, sim::hashStr(v.file));
    if (v.hasPlant) {
      sim::g_log.ev("plant", ((uint64_t)v.pc << 32) | v.a, ((uint64_t)v.b << 32) | v.o, v.memSeed);
      sim::g_log.evs("plant_mem", v.memKind, v.words.size() ? (((uint64_t)v.words[0].first << 32) | v.words[0].second) : 0);
    } else sim::g_log.ev("verilator_seed", v.poweron);
  }

  // Reference outcomes (all-zero power-on state) per (binary, input, files), cached per worker.
  std::map<uint64_t, ToolOutcome> refCache;

  Outcome execute(const Json &plan) override {
    PlanView v = view(plan);
    Outcome o;
    sim::g_log.reset(sim::g_log.keep);
    if (v.file.size() < 8) { o.note = "skipped:no_binary"; o.hash = sim::g_log.hashHex(); return o; }
    Classified c = classify(v, true);
    o.stateKeys.push_back("prog=" + v.progName + " in=" + std::to_string(v.input.size() > 3 ? 3 : v.input.size()) + " judged=" + (c.judged ? "1" : c.why) + (c.exitStubEdge ? " exit_stub" : ""));
    if (c.exitStubEdge) o.count("probe.edge_exit_stub");
    o.count(c.judged ? "probe.pair_judged" : "probe.pair_not_judged_" + c.why);
    if (v.mode == "c06") return execC06(v, c, o);
    return execC13(v, c, o);
  }

  Outcome execC13(const PlanView &v, const Classified &c, Outcome &o) {
    // C13 quantifies over every binary and input; pairs that hexref says do not reach EXIT inside
    // the budget are still run (the outcome must not depend on the power-on state either way) but
    // with a small watchdog, and a watchdog outcome is an outcome like any other.
    if (!c.judged && c.why != "no_exit_in_budget") { o.note = "skipped:" + c.why; o.hash = sim::g_log.hashHex(); return o; }
    uint64_t watchdog = c.judged ? c.steps + 64 : 3000;
    bool trace = v.trace && c.judged && c.steps <= 2500;        // every traced cycle is a line of output
    uint64_t key = sim::mix64(sim::hashStr(v.file), sim::hashStr(v.input), watchdog * 2 + (trace ? 1 : 0));
    for (int k = 0; k < 8; k++) if (v.siminPresent[k]) key = sim::mix64(key, (uint64_t)k + 1, sim::hashStr(v.simin[k]));
    auto it = refCache.find(key);
    if (it == refCache.end()) {
      sim::g_log.reset(false);
      ToolOutcome ref = runTbPlanted(v, true, watchdog, nullptr, trace);
      if (refCache.size() > 4000) refCache.clear();
      it = refCache.emplace(key, ref).first;
      o.count("probe.reference_runs");
    }
    const ToolOutcome &ref = it->second;
    sim::g_log.reset(sim::g_log.keep);
    logFaults(v);
    std::string inv;
    ToolOutcome t;
    if (v.hasPlant) { t = runTbPlanted(v, false, watchdog, &inv, trace); o.count("fault.planted_state"); o.count("fault.planted_mem_" + v.memKind); }
    else { t = runTbMain(v, v.poweron, watchdog, &inv, trace); o.count("fault.verilator_seed"); }
    if (trace) o.count("fault.hextb_trace_option");
    o.simCycles = g_tick.ticks / 2;
    o.nontrivial = true;
    if (g_tick.releaseTime) o.count("probe.reset_released_seen");
    sim::g_log.evs("outcome", t.str());
    std::string d = diffOutcome(t, ref, false);
    if (inv.empty() && t.t.kind == sim::Trapped::RETURNED && !t.hung && g_tick.ticks > 0 && !g_tick.released)
      inv = "invariant_before_reset:returned|run() returned (a system call was serviced) before reset had been asserted and released";
    if (!inv.empty()) {
      size_t bar = inv.find('|');
      o.violate("invariant_before_reset", inv.substr(bar + 1) + " [" + v.progName + "]", inv.substr(0, bar));
    } else if (t.t.kind == sim::Trapped::CRASHED && ref.t.kind != sim::Trapped::CRASHED) {
      o.violate("crashed", "hextb " + t.t.str() + " where the all-zero power-on state gives " + ref.t.str() + " [" + v.progName + "]", "crashed:hextb");
    } else if (!d.empty()) {
      o.violate("outcome_differs", d + " (this power-on state vs all-zero) [" + v.progName + "]", "outcome_differs:poweron");
    }
    o.hash = sim::g_log.hashHex();
    return o;
  }

  // Second layer (fidelity of this simulation, never a verdict): a sample of judged C06 pairs is written
  // out so that bin/check can run the real hextb and hexsim executables on the same binary, input and
  // files (with standard input really closed where the plan says so) and compare what they do with what
  // the in-process runs did.
  int obsLeft = -1;
  void dumpObs(const PlanView &v, bool closed, uint64_t watchdog, const ToolOutcome &tb, const ToolOutcome &hs) {
    if (obsLeft < 0) { const char *n = getenv("VERIF_OBS_COUNT"); obsLeft = n ? std::atoi(n) : 0; }
    const char *path = getenv("VERIF_OBS_FILE");
    if (obsLeft <= 0 || !path || v.file.size() > 20000 || v.hasPlant || v.jumpTo) return;
    if (tb.t.kind == sim::Trapped::CRASHED || hs.t.kind == sim::Trapped::CRASHED || tb.hung) return;
    if (ss.out.overflowed) return;
    { struct stat st; if (::stat(path, &st) == 0 && st.st_size > (32 << 20)) return; }
    obsLeft--;
    Json j = Json::object();
    j["file_hex"] = sim::toHex(v.file); j["stdin_hex"] = sim::toHex(v.input); j["stdin_closed"] = closed;
    j["seed"] = (unsigned long long)v.poweron; j["max_cycles"] = (unsigned long long)watchdog;
    Json si = Json::object(); for (int k = 0; k < 8; k++) if (v.siminPresent[k]) si["simin" + std::to_string(k)] = sim::toHex(v.simin[k]);
    j["simin"] = si;
    auto put = [&](const char *name, const ToolOutcome &t) {
      Json e = Json::object(); e["status"] = t.status8(); e["stdout_hex"] = sim::toHex(t.out);
      Json f = Json::object(); for (auto &kv : t.files) f[kv.first] = sim::toHex(kv.second); e["files"] = f;
      e["returned"] = t.t.kind == sim::Trapped::RETURNED || t.t.kind == sim::Trapped::EXITED;
      j[name] = e;
    };
    put("hextb", tb); put("hexsim", hs);
    std::string line = j.dump() + "\n";
    int fd = ::open(path, O_WRONLY | O_CREAT | O_APPEND, 0644);
    if (fd >= 0) { ssize_t w = ::write(fd, line.data(), line.size()); (void)w; ::close(fd); }
  }

  Outcome execC06(const PlanView &v, const Classified &c, Outcome &o) {
    if (!c.judged) { o.note = "skipped:" + c.why; o.hash = sim::g_log.hashHex(); return o; }
    uint64_t watchdog = c.steps + 64;
    logFaults(v);
    std::string inv;
    // Closed standard input is only simulated for programs that use no file streams (with them the
    // first simin/simout file itself lands on descriptor 0 in both tools, which the ISA model does not
    // describe).
    bool closed = v.stdinClosed && !v.hasPlant && !c.usesFileStreams;
    if (closed) { o.count("fault.stdin_closed"); sim::g_log.ev("stdin_closed", 1); }
    if (v.jumpTo && !v.hasPlant) { o.count("fault.testbench_time_jump"); sim::g_log.ev("time_jump", v.jumpAfter, v.jumpTo); }
    sim::fs::setStdinClosed(closed);
    ToolOutcome tb = v.hasPlant ? runTbPlanted(v, false, watchdog, &inv) : runTbMain(v, v.poweron, watchdog, &inv);
    o.count(v.hasPlant ? "fault.planted_state" : "fault.verilator_seed");
    o.simCycles = g_tick.ticks / 2;
    sim::g_log.evs("hextb", tb.str());
    sim::fs::setStdinClosed(closed);
    ToolOutcome hs = runHexsim(v, 0);
    sim::fs::setStdinClosed(false);
    dumpObs(v, closed, watchdog, tb, hs);
    o.simInstr = c.steps;
    sim::g_log.evs("hexsim", hs.str());
    o.nontrivial = c.syscalls > 0;
    if (c.consumed < v.input.size()) o.count("probe.input_longer_than_read");
    if (c.consumed == v.input.size() && !v.input.empty()) o.count("probe.input_exactly_read");
    std::string d = diffOutcome(tb, hs, true);
    if (tb.t.kind == sim::Trapped::CRASHED) o.violate("crashed", "hextb " + tb.t.str() + " [" + v.progName + "]", "crashed:hextb");
    else if (tb.hung) o.violate("hung", "hextb did not reach EXIT within " + std::to_string(watchdog) + " cycles; the ISA model exits after " + std::to_string(c.steps) + " [" + v.progName + "]", "hung:hextb");
    else if (!d.empty()) o.violate("outcome_differs", "hextb vs hexsim: " + d + " [" + v.progName + "]", "outcome_differs:tb_vs_sim");
    o.hash = sim::g_log.hashHex();
    return o;
  }
};

} // namespace

int main(int argc, char **argv) {
  TbSim h;
  return sim::driverMain(argc, argv, h);
}
