// toolsim: the four tool mains (hexasm, xcmp, xrun, hexsim) executed in-process over the simulated
// file system and streams, judged against a small contract model.
//   C14  exit status and output files reflect what happened
#include "sim/driver.hpp"
#include "model/hexref.hpp"
#include "gen/xgen.hpp"
#include "gen/mutate.hpp"

#include "hexsim.hpp"
#include "hexasm.hpp"
#include "xcmp.hpp"

#include <dirent.h>
#include <sys/stat.h>

int hexsim_main(int argc, const char **argv);
int hexasm_main(int argc, const char **argv);
int xcmp_main(int argc, const char **argv);
int xrun_main(int argc, char **argv);

using sim::Json;
using sim::Outcome;
using sim::Rng;

namespace {

const uint32_t W = hexref::W_HEXSIM;
std::string clip(const std::string &s, size_t n = 60) {
  std::string r;
  for (unsigned char c : s.substr(0, n)) r += (c >= 0x20 && c < 0x7f) ? (char)c : '.';
  if (s.size() > n) r += "..";
  return r;
}

struct Src { std::string name, text; bool isX; std::vector<std::string> inputs; };
std::vector<Src> g_sources;

void loadPools() {
  const char *dirEnv = getenv("VERIF_CORPUS_DIR");
  std::string dir = dirEnv && *dirEnv ? dirEnv : "/verif/corpus";
  Json inputs = Json::object();
  { std::string t = sim::readFile(dir + "/inputs.json"); if (!t.empty()) inputs = Json::parse(t); }
  auto ins = [&](const std::string &name) { std::vector<std::string> v; if (auto *p = inputs.find(name)) for (auto &x : p->a) v.push_back(sim::fromHex(x.s)); return v; };
  auto addDir = [&](const std::string &sub, const std::string &ext, bool isX) {
    DIR *d = opendir((dir + "/" + sub).c_str());
    if (!d) return;
    std::vector<std::string> names;
    while (dirent *e = readdir(d)) { std::string n = e->d_name; if (n.size() > ext.size() && n.compare(n.size() - ext.size(), ext.size(), ext) == 0) names.push_back(n); }
    closedir(d);
    std::sort(names.begin(), names.end());
    for (auto &n : names) {
      std::string text = sim::readFile(dir + "/" + sub + "/" + n);
      if (text.size() > 20000) continue;     // the self-hosting compiler sources are C11's workload; here they only cost time
      g_sources.push_back({n.substr(0, n.size() - ext.size()), text, isX, ins(n.substr(0, n.size() - ext.size()))});
    }
  };
  addDir("x", ".x", true);
  addDir("asm", ".S", false);
  std::string t = sim::readFile(dir + "/x_features.json");
  if (!t.empty()) for (auto &p : Json::parse(t).a) g_sources.push_back({p.getStr("name"), p.getStr("source"), true, ins(p.getStr("name"))});
}

//---------------------------------------------------------------------------------------------
// What an invocation left behind.
//---------------------------------------------------------------------------------------------
struct Inv {
  sim::Trapped t;
  std::string out, err;
  size_t consumed = 0;
  std::map<std::string, std::string> before, after;
  int status() const {
    // What the parent process would see.
    if (t.kind == sim::Trapped::THREW || t.kind == sim::Trapped::CRASHED) return 134;    // abort()
    return t.status & 0xFF;
  }
  std::string str() const { return t.str() + " stdout=" + std::to_string(out.size()) + " stderr='" + clip(err, 40) + "'"; }
};

struct Ref {          // the library entry point on the same text
  bool usable = false;       // false: the library crashed on it (not judged)
  bool accepted = false;
  std::string bytes;         // the binary (EMIT_BINARY) when accepted
  std::string why;
};

class ToolSim : public sim::Harness {
public:
  const char *name() const override { return "toolsim"; }
  sim::StdStreams ss;
  hexref::Machine *ref = nullptr;
  std::vector<uint32_t> dirty;
  std::map<uint64_t, Ref> refCache;

  bool crashProne() override { return true; }

  void workerInit() override {
    if (ref) return;
    loadPools();
    ref = new hexref::Machine(W);
  }

  Json describe() override {
    Json d = Json::object();
    Json real = Json::array(), stub = Json::array();
    real.push("hexasm.cpp, xcmp.cpp, xrun.cpp, hexsim.cpp main() (working tree, -Dmain=<tool>_main) with their argument parsing, catch blocks and return paths");
    real.push("xcmp.hpp, hexasm.hpp, hexsim.hpp, hexsimio.hpp; libstdc++ fstream/filebuf; boost::format");
    stub.push("file system (memfd-backed table behind fopen/fopen64): pre-existing files, output files, a.out/a.bin");
    stub.push("stdin/stdout/stderr (byte-granular); process start and exit (exit() trapped, escaping exception = abort status 134)");
    d["real"] = real; d["stubbed"] = stub;
    d["oracle"] = "contract model: acceptance and expected bytes from the library entry point on the same text; file-system state before and after; xcmp+hexsim pair for xrun; hexref exit value for hexsim";
    d["source_pool"] = (unsigned long long)g_sources.size();
    return d;
  }

  //-------------------------------------------------------------------------------------------
  // Plans
  //-------------------------------------------------------------------------------------------
  Json generate(uint64_t runSeed, uint64_t index) override {
    (void)index;
    Rng r(runSeed);
    Json plan = Json::object(), cfg = Json::object(), ops = Json::array();
    cfg["mode"] = "c14";
    // Tool and source.
    static const char *tools[] = {"xcmp", "xcmp", "xcmp", "hexasm", "hexasm", "xrun", "xrun", "hexsim"};
    std::string tool = tools[r.below(8)];
    bool wantX = tool != "hexasm";
    if (tool == "hexsim") wantX = r.chance(2, 3);
    std::string text, origin; std::vector<std::string> inputs;
    unsigned k = (unsigned)r.below(10);
    if (k < 3 || g_sources.empty()) {
      Rng gr = r.fork(5);
      text = wantX ? gen::makeX(gr) : gen::makeAsm(gr);
      origin = wantX ? "xgen" : "asmgen";
    } else {
      for (int t = 0; t < 50; t++) {
        const Src &s = g_sources[r.below(g_sources.size())];
        if (s.isX != wantX) continue;
        text = s.text; origin = s.name; inputs = s.inputs;
        break;
      }
      if (origin.empty()) { Rng gr = r.fork(5); text = wantX ? gen::makeX(gr) : gen::makeAsm(gr); origin = "gen"; }
    }
    if (r.chance(2, 5)) { Rng mr = r.fork(6); text = gen::mutateSource(mr, text, wantX, 2); origin += "+mut"; }
    // Now and then a big program (an image of up to 190 000 words; a few hundred kB of string constants).
    if (r.chance(1, 2000)) { Rng gr = r.fork(7); text = wantX ? gen::makeBigX(gr) : gen::makeBigAsm(gr); origin = wantX ? "bigx" : "bigasm"; inputs.clear(); }
    std::string srcName = wantX ? (r.chance(1, 4) ? "prog" : "prog.x") : "prog.S";
    bool missingInput = r.chance(1, 25);
    if (!missingInput) { Json f = Json::object(); f["op"] = "file"; f["path"] = srcName; f["src"] = text; f["role"] = "source"; f["origin"] = origin; ops.push(f); }
    // Output naming.
    std::string outName; int spelling = (int)r.below(4);    // 0: default, 1: -o after, 2: -o before, 3: --output
    static const char *names[] = {"out.bin", "b.out", "result", "a.out", "x.bin", "prog", "prog.x.bin", "prog.S.out", "a.bin", ".out", "a.out.tmp", "PROG.X"};
    if (spelling) outName = names[r.below(r.chance(2, 3) ? 5 : 12)];
    if (spelling && r.chance(1, 30)) outName = srcName;       // output path equals the input path
    // A legal name at the NAME_MAX boundary (251..255 characters): anything the tool derives from it (a temporary, a backup) is not (seeded C14-15).
    if (spelling && r.chance(1, 20)) outName = std::string(247 + (size_t)r.below(5), (char)('a' + r.below(26))) + ".bin";
    // Pre-existing files.
    auto junk = [&]() { std::string d; size_t n = 1 + (size_t)r.below(40); for (size_t q = 0; q < n; q++) d.push_back((char)r.below(256)); return d; };
    std::string effOut = outName.empty() ? (tool == "xrun" ? "a.bin" : "a.out") : outName;
    if (tool == "xrun") effOut = "a.bin";
    if (r.chance(1, 2) && effOut != srcName) {
      Json f = Json::object(); f["op"] = "file"; f["path"] = effOut; f["hex"] = sim::toHex(junk()); f["role"] = "preexisting_output";
      // Sometimes the file left behind by an earlier build of almost the same source: the expected
      // binary with one byte changed near the end of the program or in the symbol section.
      if (r.chance(1, 3)) f["near_copy"] = (unsigned long long)(1 + r.below(1000));
      ops.push(f);
    }
    if (r.chance(1, 3)) { Json f = Json::object(); f["op"] = "file"; f["path"] = r.chance(1, 2) ? "a.out" : "a.bin"; f["hex"] = sim::toHex(junk()); f["role"] = "bystander"; ops.push(f); }
    if (r.chance(1, 4)) { Json f = Json::object(); f["op"] = "file"; f["path"] = "notes.txt"; f["hex"] = sim::toHex(junk()); f["role"] = "bystander"; ops.push(f); }
    // Input files for the program's file streams (generated programs read streams 256, 512 and 1280).
    if ((tool == "xrun" || tool == "hexsim") && r.chance(1, 2)) {
      static const int idx[] = {1, 2, 5};
      for (int q = 0; q < 3; q++) {
        if (r.chance(1, 6)) continue;
        std::string d; size_t n = (size_t)r.below(6); for (size_t z = 0; z < n; z++) d.push_back((char)r.below(256));
        Json f = Json::object(); f["op"] = "file"; f["path"] = "simin" + std::to_string(idx[q]); f["hex"] = sim::toHex(d); f["role"] = "simin"; ops.push(f);
      }
    }
    // The invocation.
    Json inv = Json::object();
    inv["op"] = "tool"; inv["name"] = tool;
    Json argv = Json::array();
    std::string listing;
    if (tool == "xcmp" && r.chance(1, 4)) { static const char *l[] = {"--tokens", "--tree", "--tree-opt", "--insts", "--insts-lowered", "--insts-optimised", "-S", "--insts-asm", "--memory-info"}; listing = l[r.below(9)]; }
    if (tool == "hexasm" && r.chance(1, 4)) { static const char *l[] = {"--tokens", "--instrs"}; listing = l[r.below(2)]; }
    std::vector<std::string> parts;
    if (tool == "xcmp" || tool == "hexasm") {
      std::string oflag = spelling == 3 ? "--output" : "-o";
      if (spelling == 2) { parts.push_back(oflag); parts.push_back(outName); }
      if (!listing.empty() && r.chance(1, 2)) parts.push_back(listing);
      parts.push_back(srcName);
      if (!listing.empty() && std::find(parts.begin(), parts.end(), listing) == parts.end()) parts.push_back(listing);
      if (spelling == 1 || spelling == 3) { parts.push_back(oflag); parts.push_back(outName); }
    } else if (tool == "xrun") {
      if (r.chance(1, 6)) parts.push_back("-t");
      parts.push_back(srcName);
      if (r.chance(1, 5)) {
        auto limit = [&]() -> std::string {
          if (r.chance(1, 8)) { static const char *edge[] = {"0", "1", "4294967295", "4294967296", "18446744073709551615", "65536"}; return edge[r.below(6)]; }
          return r.chance(2, 3) ? "@REL" + std::to_string((int)r.range(-2, 2)) : std::to_string(1 + r.below(2000));
        };
        if (r.chance(1, 10)) { parts.push_back("--max-cycles"); parts.push_back(limit()); }     // given twice: the last one counts
        parts.push_back("--max-cycles"); parts.push_back(limit());
      }
    } else {   // hexsim: first build the binary with the matching tool (a chained invocation)
      inv["build_with"] = wantX ? "xcmp" : "hexasm";
      if (r.chance(1, 6)) parts.push_back("-t");
      if (r.chance(1, 4)) {
        auto limit = [&]() -> std::string {
          if (r.chance(1, 8)) { static const char *edge[] = {"0", "1", "4294967295", "4294967296", "18446744073709551615", "65536"}; return edge[r.below(6)]; }
          return r.chance(2, 3) ? "@REL" + std::to_string((int)r.range(-2, 2)) : std::to_string(1 + r.below(2000));
        };
        if (r.chance(1, 10)) { parts.push_back("--max-cycles"); parts.push_back(limit()); }
        parts.push_back("--max-cycles"); parts.push_back(limit());
      }
      parts.push_back("prog.bin");
    }
    // Usage errors: the command line itself is wrong (the statement's "on any error").
    if (tool != "hexsim" && r.chance(1, 16)) {
      static const char *bogus[] = {"--bogus", "-x", "--output-file", "-", "--tree-optimised", "-O2", "--trace-all"};
      size_t at = (size_t)r.below(parts.size() + 1);
      switch (r.below(5)) {
        case 0: parts.insert(parts.begin() + (long)at, bogus[r.below(7)]); break;                       // unknown option
        case 1: parts.insert(parts.begin() + (long)at, r.chance(1, 2) ? "other.x" : srcName); break;    // a second file
        case 2: parts.insert(parts.begin() + (long)at, r.chance(1, 2) ? "-h" : "--help"); break;        // help wins over everything
        case 3: parts.erase(std::remove(parts.begin(), parts.end(), srcName), parts.end()); break;     // no file
        default: if (tool == "xrun") { parts.push_back("--max-cycles"); parts.push_back("abc"); }
                 else parts.insert(parts.begin() + (long)at, tool == "xcmp" ? "--instrs" : "--tree"); break;   // the other tool's option
      }
      inv["usage_error"] = true;
    }
    for (auto &p : parts) argv.push(p);
    inv["argv"] = argv;
    std::string in;
    if (!inputs.empty() && r.chance(3, 4)) in = inputs[r.below(inputs.size())];
    else { size_t n = (size_t)r.below(6); if (r.chance(1, 40)) n = (r.chance(1, 2) ? 4094 : 8190) + (size_t)r.below(5);     // around a 4096-byte buffer boundary
           for (size_t q = 0; q < n; q++) in.push_back((char)(n > 100 ? 32 + r.below(95) : r.chance(1, 4) ? r.below(256) : 1 + r.below(20))); }
    inv["stdin_hex"] = sim::toHex(in);
    if (r.chance(1, 12)) { inv["inject_open_failure"] = true; }   // recorded, never judged
    // The output path may be a pipe (a FIFO, /dev/stdout into a pipeline): bytes go out in order and the
    // stream cannot be positioned.
    if ((tool == "xcmp" || tool == "hexasm") && listing.empty() && !outName.empty() && outName != srcName && origin.compare(0, 3, "big") != 0 && r.chance(1, 20)) {
      Json f = Json::object(); f["op"] = "pipe"; f["path"] = outName; ops.push(f);
    }
    if ((tool == "xrun" || tool == "hexsim") && r.chance(1, 12)) inv["stdin_closed"] = true;   // started with descriptor 0 closed
    // Simulated time: the simulator's cycle counter starts just below a power of two (only without a
    // cycle limit, whose meaning is tied to the count).
    if ((tool == "xrun" || tool == "hexsim") && std::find(parts.begin(), parts.end(), "--max-cycles") == parts.end() && r.chance(1, 5)) {
      static const unsigned bits[] = {8, 15, 16, 24, 31, 32, 32, 33, 48, 62};
      inv["cycle_base"] = (unsigned long long)((1ull << bits[r.below(10)]) - r.below(40));
    }
    ops.push(inv);
    plan["config"] = cfg; plan["ops"] = ops;
    return plan;
  }

  bool removable(const Json &op) override { return op.getStr("op") != "tool"; }

  std::vector<Json> simplifyOp(const Json &op) override {
    std::vector<Json> out;
    if (op.getStr("op") == "file" && op.has("src")) {
      std::string s = op.getStr("src");
      std::vector<std::string> tok = gen::tokenize(s);
      size_t n = tok.size(), budget = 80;
      for (size_t chunk = n / 2; chunk >= 1 && budget > 0; chunk /= 2) {
        for (size_t a = 0; a < n && budget > 0; a += chunk, budget--) {
          std::string t;
          for (size_t k = 0; k < n; k++) if (k < a || k >= a + chunk) t += tok[k];
          if (t != s) { Json c = op; c["src"] = t; out.push_back(c); }
        }
        if (chunk == 1) break;
      }
    }
    if (op.getStr("op") == "tool") {
      if (op.has("inject_open_failure")) { Json c = op; c.erase("inject_open_failure"); out.push_back(c); }
      const Json &argv = op.at("argv");
      for (size_t k = 0; k < argv.a.size(); k++) {
        const std::string &a = argv.a[k].s;
        if (a == "-t" || a.compare(0, 2, "--") == 0 && a != "--output") {
          Json c = op; c["argv"].a.erase(c["argv"].a.begin() + (long)k);
          if (a == "--max-cycles" && k < c["argv"].a.size()) c["argv"].a.erase(c["argv"].a.begin() + (long)k);
          out.push_back(c);
        }
      }
    }
    return out;
  }

  //-------------------------------------------------------------------------------------------
  // Library reference: is the text accepted, and which bytes does it produce?
  //-------------------------------------------------------------------------------------------
  Ref libraryRef(bool isX, const std::string &text) {
    uint64_t key = sim::mix64(sim::hashStr(text), isX ? 1 : 2);
    auto it = refCache.find(key);
    if (it != refCache.end()) return it->second;
    // Runs outside the recorded history (it may come from the cache next time).
    uint64_t sq = sim::g_log.seq, a1 = sim::g_log.h1, a2 = sim::g_log.h2; size_t nl = sim::g_log.lines.size();
    auto saved = sim::fs::snapshot();
    sim::fs::reset();
    std::ostringstream sink;
    sim::Trapped t = sim::runTrapped([&]() -> int {
      if (isX) { xcmp::Driver driver(sink); return driver.run(xcmp::DriverAction::EMIT_BINARY, text, false, "ref.bin"); }
      hexasm::Lexer lexer; hexasm::Parser parser(lexer);
      lexer.loadBuffer(text);
      auto program = parser.parseProgram();
      hexasm::CodeGen cg(program);
      cg.emitBin("ref.bin");
      return 0;
    }, 90);
    Ref r;
    if (t.kind == sim::Trapped::CRASHED) { r.usable = false; r.why = t.str(); }
    else if (t.kind == sim::Trapped::RETURNED && t.status == 0 && sim::fs::exists("ref.bin")) { r.usable = true; r.accepted = true; r.bytes = sim::fs::get("ref.bin"); }
    else { r.usable = true; r.accepted = false; r.why = t.str(); }
    sim::fs::reset();
    for (auto &kv : saved) sim::fs::put(kv.first, kv.second);
    sim::g_log.seq = sq; sim::g_log.h1 = a1; sim::g_log.h2 = a2; if (sim::g_log.lines.size() > nl) sim::g_log.lines.resize(nl);
    if (refCache.size() > 4000) refCache.clear();
    refCache[key] = r;
    return r;
  }
  // For listing actions: does the library entry point for that action succeed?
  bool libraryListingOk(bool isX, const std::string &flag, const std::string &text, bool &usable) {
    uint64_t sq = sim::g_log.seq, a1 = sim::g_log.h1, a2 = sim::g_log.h2; size_t nl = sim::g_log.lines.size();
    auto saved = sim::fs::snapshot();
    std::ostringstream sink;
    ss.attach("");    // --memory-info prints through std::cout
    sim::Trapped t = sim::runTrapped([&]() -> int {
      if (isX) {
        xcmp::Driver driver(sink);
        xcmp::DriverAction a = xcmp::DriverAction::EMIT_BINARY; bool mem = false;
        if (flag == "--tokens") a = xcmp::DriverAction::EMIT_TOKENS;
        else if (flag == "--tree" || flag == "--insts-asm") a = xcmp::DriverAction::EMIT_TREE;
        else if (flag == "--tree-opt") a = xcmp::DriverAction::EMIT_OPTIMISED_TREE;
        else if (flag == "--insts") a = xcmp::DriverAction::EMIT_INTERMEDIATE_INSTS;
        else if (flag == "--insts-lowered") a = xcmp::DriverAction::EMIT_LOWERED_INSTS;
        else if (flag == "--insts-optimised") a = xcmp::DriverAction::EMIT_OPTIMISED_INSTS;
        else if (flag == "-S") a = xcmp::DriverAction::EMIT_ASM;
        else if (flag == "--memory-info") mem = true;
        return driver.run(a, text, false, "ref.bin", mem);
      }
      hexasm::Lexer lexer; hexasm::Parser parser(lexer);
      lexer.loadBuffer(text);
      if (flag == "--tokens") { lexer.emitTokens(sink); return 0; }
      auto program = parser.parseProgram();
      hexasm::CodeGen cg(program);
      cg.emitProgramText(sink);
      return 0;
    }, 90);
    ss.detach();
    sim::fs::reset();
    for (auto &kv : saved) sim::fs::put(kv.first, kv.second);
    sim::g_log.seq = sq; sim::g_log.h1 = a1; sim::g_log.h2 = a2; if (sim::g_log.lines.size() > nl) sim::g_log.lines.resize(nl);
    usable = t.kind != sim::Trapped::CRASHED;
    return t.kind == sim::Trapped::RETURNED && t.status == 0;
  }

  //-------------------------------------------------------------------------------------------
  Inv invoke(const std::string &tool, const std::vector<std::string> &args, const std::string &input) {
    Inv r;
    r.before = sim::fs::snapshot();
    ss.attach(closedNow ? std::string() : input);
    sim::fs::setStdinClosed(closedNow);
    bool limited = std::find(args.begin(), args.end(), "--max-cycles") != args.end();
    hexsim::Processor::verifCycleBase() = (tool == "hexsim" || tool == "xrun") && !limited ? (size_t)cycleBaseNow : 0;
    bool based = hexsim::Processor::verifCycleBase() != 0;       // no counterpart in the real-executable layer
    if (based) sim::g_log.ev("cycle_base", hexsim::Processor::verifCycleBase());
    std::vector<std::string> argv;
    argv.push_back(tool);
    for (auto &a : args) argv.push_back(a);
    std::vector<const char *> av;
    for (auto &a : argv) av.push_back(a.c_str());
    av.push_back(nullptr);
    int argc = (int)argv.size();
    sim::simclock::activate(1000000000ull, 4242);
    r.t = sim::runTrapped([&]() -> int {
      if (tool == "xcmp") return xcmp_main(argc, av.data());
      if (tool == "hexasm") return hexasm_main(argc, av.data());
      if (tool == "xrun") return xrun_main(argc, (char **)av.data());
      return hexsim_main(argc, av.data());
    }, 30);
    sim::simclock::deactivate();
    sim::fs::setStdinClosed(false);
    hexsim::Processor::verifCycleBase() = 0;
    r.out = ss.out.data; r.err = ss.err.data; r.consumed = closedNow ? 0 : ss.in.consumed();
    ss.detach();
    r.after = sim::fs::snapshot();
    std::string line = tool;
    for (auto &a : args) line += " " + a;
    sim::g_log.evs("invoke", line + " -> " + r.str());
    if (!based) dumpObservation(tool, args, input, r);
    return r;
  }

  // Second layer (thorough tier): the first observations of each worker are written out so that
  // bin/check can repeat the same invocations with the real executables in a scratch directory and
  // compare what it sees with what the in-process simulation saw.
  int obsLeft = -1;
  bool obsSuppress = false;
  void dumpObservation(const std::string &tool, const std::vector<std::string> &args, const std::string &input, const Inv &r) {
    if (obsLeft < 0) { const char *n = getenv("VERIF_OBS_COUNT"); obsLeft = n ? std::atoi(n) : 0; }
    const char *path = getenv("VERIF_OBS_FILE");
    if (obsLeft <= 0 || !path || obsSuppress) return;
    if (r.t.kind == sim::Trapped::CRASHED) return;
    { struct stat st; if (::stat(path, &st) == 0 && st.st_size > (64 << 20)) return; }   // restarted workers start a new budget: bound the file
    if (ss.out.overflowed || ss.err.overflowed) return;     // more than the simulated streams keep (1 MB): nothing to compare byte for byte
    obsLeft--;
    Json j = Json::object();
    j["tool"] = tool;
    Json av = Json::array(); for (auto &a : args) av.push(a);
    j["argv"] = av;
    j["stdin_hex"] = sim::toHex(closedNow ? std::string() : input);
    if (closedNow) j["stdin_closed"] = true;
    j["status"] = r.status();
    j["stdout_hex"] = sim::toHex(r.out);
    j["stderr_nonempty"] = !r.err.empty();
    j["consumed"] = (unsigned long long)r.consumed;
    Json b = Json::object(), a = Json::object();
    for (auto &kv : r.before) b[kv.first] = sim::toHex(kv.second);
    for (auto &kv : r.after) a[kv.first] = sim::toHex(kv.second);
    j["before"] = b; j["after"] = a;
    std::string line = j.dump() + "\n";
    int fd = ::open(path, O_WRONLY | O_CREAT | O_APPEND, 0644);
    if (fd >= 0) { ssize_t w = ::write(fd, line.data(), line.size()); (void)w; ::close(fd); }
  }

  // Files other than `except` that existed before are unchanged.
  static std::string bystandersChanged(const Inv &r, const std::string &except) {
    for (auto &kv : r.before) {
      if (kv.first == except) continue;
      auto it = r.after.find(kv.first);
      if (it == r.after.end()) return "pre-existing file " + kv.first + " was removed";
      if (it->second != kv.second) return "pre-existing file " + kv.first + " was changed";
    }
    return "";
  }

  // hexref's verdict on a binary file + input.
  bool isaUsedFiles = false;      // did the last isaOutcome() touch a file stream
  std::string siminNow[8]; bool siminPresentNow[8] = {};   // simin<n> files staged by the plan (the ISA model reads the same bytes)
  bool closedNow = false;         // invocations run with standard input closed (descriptor-0 model of sim::fs)
  uint64_t cycleBaseNow = 0;      // hexsim/xrun invocations start with the cycle counter here (hook H1)
  bool isaOutcome(const std::string &file, const std::string &input, uint64_t budget, uint32_t &exitValue, std::string &out, size_t &consumed, uint64_t *stepsOut = nullptr) {
    if (file.size() < 8) return false;
    uint32_t words = 0; std::memcpy(&words, file.data(), 4);
    size_t bytes = (size_t)words * 4;
    std::string image = 4 + bytes <= file.size() ? file.substr(4, bytes) : file.substr(4);
    hexref::Machine &m = *ref;
    hexref::Io rio; rio.input = input; rio.keepHistory = false;
    for (int q = 0; q < 8; q++) if (siminPresentNow[q]) { rio.fileExists[q] = true; rio.fileIn[q] = siminNow[q]; }
    for (uint32_t a : dirty) if (a < W) m.mem[a] = 0;
    dirty.clear();
    m.reset(); m.io = &rio;
    m.loadImage(image);
    for (uint32_t a = 0; a < (image.size() + 3) / 4 && a < W; a++) dirty.push_back(a);
    uint32_t hi[3] = {0, 0, 0};      // words 200000..200002, which hexsim does not have
    const uint64_t skipped = 0;      // the tolerated store is one loop iteration like any instruction
    for (uint64_t s = 0; s < budget; s++) {
      hexref::Domain d = m.classifyNext(false, false);
      if (d != hexref::D_OK) {
        // The exit stub's store to word 200001 is the one tolerated excursion (see DESIGN.md 2.4).
        if (d != hexref::D_DATA_OOB) return false;
        uint8_t inst = m.byteAt(m.pc);
        uint32_t addr = m.breg + (m.oreg | (inst & 15));
        // Only the stub itself: "STAI 2; LDAC 0; OPR SVC".  Any other store up there (an array indexed
        // past its end, say) corrupts hexsim's own object, and what follows is undefined.
        bool stub = (m.pc + 2) < W * 4 && m.byteAt(m.pc + 1) == 0x30 && m.byteAt(m.pc + 2) == 0xD3;
        if ((inst >> 4) == 8 && addr >= W && addr <= W + 2 && stub) { hi[addr - W] = m.areg; m.pc++; m.oreg = 0; continue; }   // the store, kept aside
        if (inst == 0xD3 && m.oreg == 0 && m.areg == 0 && m.mem[1] + 2 >= W && m.mem[1] + 2 <= W + 2) { exitValue = hi[m.mem[1] + 2 - W]; out = rio.out; consumed = rio.inPos; if (stepsOut) *stepsOut = s + 1 + skipped; { isaUsedFiles = false; for (int q = 0; q < 8; q++) if (rio.fileMode[q] != hexref::Io::CLOSED) isaUsedFiles = true; return !rio.missingFileReads; } }
        return false;
      }
      m.step();
      if (m.last.wrote) dirty.push_back(m.last.waddr);
      if (m.last.exited) { exitValue = m.exitValue; out = rio.out; consumed = rio.inPos; if (stepsOut) *stepsOut = s + 1 + skipped; { isaUsedFiles = false; for (int q = 0; q < 8; q++) if (rio.fileMode[q] != hexref::Io::CLOSED) isaUsedFiles = true; return !rio.missingFileReads; } }
    }
    return false;
  }

  Outcome execute(const Json &plan) override {
    sim::g_log.reset(sim::g_log.keep);
    Outcome o;
    run(plan, o);
    sim::fs::reset();
    sim::fs::clearFaults();
    o.hash = sim::g_log.hashHex();
    return o;
  }

  void run(const Json &plan, Outcome &o) {
    sim::fs::reset();
    closedNow = false;
    cycleBaseNow = 0;
    for (int q = 0; q < 8; q++) { siminPresentNow[q] = false; siminNow[q].clear(); }
    std::string nearCopyPath; uint64_t nearCopy = 0;
    std::string srcName, text, origin; bool haveSource = false;
    std::string pipePath;
    const Json *invp = nullptr;
    for (auto &op : plan.at("ops").a) {
      std::string k = op.getStr("op");
      if (k == "file") {
        std::string content = op.has("src") ? op.getStr("src") : sim::fromHex(op.getStr("hex"));
        sim::fs::put(op.getStr("path"), content);
        if (op.getStr("role") == "source") { srcName = op.getStr("path"); text = content; origin = op.getStr("origin"); haveSource = true; }
        else o.count("fault.prefile_" + op.getStr("role", "other"));
        if (op.has("near_copy")) { nearCopyPath = op.getStr("path"); nearCopy = op.getU64("near_copy"); }
        if (op.getStr("role") == "simin") { std::string pth = op.getStr("path"); if (pth.size() == 6 && pth.compare(0, 5, "simin") == 0 && pth[5] >= '0' && pth[5] <= '7') { siminPresentNow[pth[5] - '0'] = true; siminNow[pth[5] - '0'] = content; } }
      } else if (k == "pipe") { pipePath = op.getStr("path"); }
      else if (k == "tool") invp = &op;
    }

    if (!invp) { o.note = "skipped:no_invocation"; return; }
    const Json &inv = *invp;
    std::string tool = inv.getStr("name");
    std::vector<std::string> args;
    for (auto &a : inv.at("argv").a) args.push_back(a.s);
    std::string input = sim::fromHex(inv.getStr("stdin_hex"));
    cycleBaseNow = inv.getU64("cycle_base");
    if (cycleBaseNow) o.count("fault.cycle_counter_starts_high");
    // Which file argument, which output name, which listing flag.
    // A usage error, judged by the command lines the four help texts document, is any of: -h/--help,
    // an option the tool does not have, an option without its value, --max-cycles with a word for a
    // number, no file, more than one file.
    std::string fileArg, outName, listing, usage; bool unclear = false;
    {
      std::set<std::string> valued, plain;
      if (tool == "xcmp") { valued = {"-o", "--output"}; plain = {"--tokens", "--tree", "--tree-opt", "--insts", "--insts-lowered", "--insts-optimised", "--memory-info", "-S", "--insts-asm"}; }
      else if (tool == "hexasm") { valued = {"-o", "--output"}; plain = {"--tokens", "--instrs"}; }
      else if (tool == "xrun") { valued = {"--max-cycles"}; plain = {"-t", "--trace"}; }
      else { valued = {"--max-cycles"}; plain = {"-t", "--trace", "-d", "--dump"}; }
      auto flag = [&](const std::string &w) { if (usage.empty()) usage = w; };
      for (size_t k = 0; k < args.size(); k++) {
        const std::string &a = args[k];
        if (a == "-h" || a == "--help") flag("help requested");
        else if (valued.count(a)) {
          // An option without its value hands the null pointer that ends argv to std::string / stoull:
          // what follows is the library's business (libstdc++ throws), and a listing action never
          // looks at the output name at all.  Not judged.
          if (k + 1 >= args.size()) { unclear = true; break; }
          const std::string &val = args[++k];
          if (a == "--max-cycles") {
            if (val.compare(0, 4, "@REL") == 0) {}
            else if (val.empty() || std::isalpha((unsigned char)val[0])) flag("--max-cycles " + val);
            else if (!std::isdigit((unsigned char)val[0])) unclear = true;     // what stoull makes of signs and blanks is not the subject
          } else outName = val;
        }
        else if (plain.count(a)) { if (tool == "xcmp" || tool == "hexasm") listing = a; }
        else if (!a.empty() && a[0] == '-' && tool != "hexsim") flag("unknown option " + a);
        else if (fileArg.empty()) fileArg = a;
        else flag("more than one file");
      }
      if (fileArg.empty()) flag("no file");
    }
    if (unclear) { o.note = "skipped:usage_unclear"; return; }
    if (!usage.empty()) {
      if (tool == "hexsim") { o.note = "skipped:usage"; return; }     // the statement speaks of hexsim's status for a program only
      Inv r = invoke(tool, args, input);
      o.nontrivial = true; o.simInstr = 1;
      o.count("fault.usage_error");
      o.stateKeys.push_back("c14 " + tool + " usage=" + usage.substr(0, usage.find(' ')));
      if (r.t.kind == sim::Trapped::CRASHED && r.t.signal == SIGALRM) { o.note = "skipped:watchdog"; o.count("probe.watchdog_hit"); return; }
      if (r.t.kind == sim::Trapped::CRASHED) { o.violate("crashed", tool + " " + r.t.str() + " on a usage error (" + usage + ")", "crashed:" + tool + ":usage"); return; }
      if (r.status() == 0) { o.violate("contract_status", tool + " exits 0 on a usage error (" + usage + ")", "contract_status:" + tool + ":usage_zero"); return; }
      if (r.err.empty() && r.out.empty()) { o.violate("contract_status", tool + " reports nothing on a usage error (" + usage + ")", "contract_status:" + tool + ":usage_no_diagnostic"); return; }
      std::string touched;
      for (auto &kv : r.after) if (!r.before.count(kv.first) || r.before.at(kv.first) != kv.second) touched += " " + kv.first;
      for (auto &kv : r.before) if (!r.after.count(kv.first)) touched += " -" + kv.first;
      if (!touched.empty()) { o.violate("contract_file", tool + " wrote files on a usage error (" + usage + "):" + touched, "contract_file:" + tool + ":usage_touched_files"); return; }
      o.note = "completed:usage_error";
      return;
    }
    bool isXTool = tool == "xcmp" || tool == "xrun";
    std::string kind = tool;

    if (tool == "hexsim") { runHexsim(inv, args, input, text, haveSource, o); return; }

    bool inputPresent = sim::fs::exists(fileArg);
    std::string srcText = inputPresent ? sim::fs::get(fileArg) : std::string();
    Ref lr;
    bool listingOk = false;
    if (inputPresent) {
      lr = libraryRef(isXTool, srcText);
      if (!lr.usable) { o.note = "skipped:library_crashes_on_source"; o.count("probe.library_crashes_on_source"); return; }
      if (!listing.empty()) { bool usable = true; listingOk = libraryListingOk(isXTool, listing, srcText, usable); if (!usable) { o.note = "skipped:library_crashes_on_source"; return; } }
    }
    uint64_t isaSteps = 0; uint32_t isaExit = 0; bool isaKnown = false;
    if (tool == "xrun" && inputPresent && lr.accepted) {
      // Only programs the ISA model sees exit inside the budget are run (the watchdog is wall-clock,
      // which must never decide an outcome); with -t the budget is small because every traced
      // instruction is a line of output.
      bool traced = std::find(args.begin(), args.end(), "-t") != args.end() || std::find(args.begin(), args.end(), "--trace") != args.end();
      std::string eo; size_t ec = 0;
      bool wantClosed = inv.getBool("stdin_closed");
      if (wantClosed) input.clear();
      if (!isaOutcome(lr.bytes, input, traced ? 3000 : 200000, isaExit, eo, ec, &isaSteps)) { o.note = "skipped:program_outside_domain_or_budget"; return; }
      // With file streams the first simin/simout file itself lands on descriptor 0: not modelled by the ISA.
      closedNow = wantClosed && !isaUsedFiles;
      if (closedNow) o.count("fault.stdin_closed");
      isaKnown = true;
      resolveRelativeLimit(args, isaSteps);
    }
    std::string effOut = tool == "xrun" ? "a.bin" : (outName.empty() ? "a.out" : outName);
    // Open failures are injected for xcmp and hexasm only: xrun would go on to load a binary that
    // is missing or stale, and hexsim's loader on such a file is undefined behaviour (not this
    // property's subject, and not repeatable).
    if (nearCopy && inputPresent && lr.accepted && nearCopyPath == effOut && lr.bytes.size() > 12) {
      std::string prev = lr.bytes;
      uint32_t words = 0; std::memcpy(&words, prev.data(), 4);
      size_t progEnd = std::min(prev.size(), (size_t)4 + (size_t)words * 4);
      // Either a byte of the last program word, or one letter of a symbol name (the tables stay
      // well-formed: a malformed table sends hexsim's loader into undefined behaviour).
      std::vector<size_t> letters;
      {
        // The string table: a count, then NUL-terminated names.
        size_t q = progEnd + 4; uint32_t n = 0;
        if (progEnd + 4 <= prev.size()) std::memcpy(&n, prev.data() + progEnd, 4);
        for (uint32_t k = 0; k < n && q < prev.size(); k++) { while (q < prev.size() && prev[q] != '\0') { if (std::isalpha((unsigned char)prev[q])) letters.push_back(q); q++; } q++; }
      }
      if (nearCopy % 3 == 0 || letters.empty()) { size_t at = progEnd - 1 - (size_t)(nearCopy % 4); prev[at] = (char)(prev[at] ^ (char)(1 + nearCopy % 200)); }
      else { size_t at = letters[nearCopy % letters.size()]; prev[at] = prev[at] == 'q' ? 'z' : 'q'; }
      sim::fs::put(effOut, prev);
      o.count("fault.prefile_previous_build_near_copy");
    }
    bool injected = inv.getBool("inject_open_failure") && tool != "xrun";
    if (injected) sim::fs::failOpen(effOut, 13 /*EACCES*/, true);
    bool toPipe = !pipePath.empty() && pipePath == effOut && tool != "xrun";
    obsSuppress = injected || toPipe;          // an injected fault / a pipe has no counterpart in the real-executable layer
    if (toPipe) { sim::fs::remove(pipePath); sim::fs::makePipe(pipePath); o.count("fault.output_path_is_a_pipe"); }     // here: reference runs reset the file table
    Inv r = invoke(tool, args, input);
    obsSuppress = false;
    o.nontrivial = true;
    o.simInstr = 1;
    std::string srcClass = !inputPresent ? "missing_input" : lr.accepted ? "accepted" : "rejected";
    o.stateKeys.push_back("c14 " + tool + " out=" + (outName.empty() ? "default" : outName == fileArg ? "same_as_input" : "named") + " listing=" + (listing.empty() ? "-" : listing) + " src=" + srcClass +
                          " pre=" + (r.before.count(effOut) ? "out_exists" : "out_absent") + (injected ? " openfail" : ""));
    o.count("probe.source_" + srcClass);
    if (r.before.count(effOut) && srcClass != "accepted") o.count("probe.preexisting_output_on_rejected_source");
    if (injected) {
      // The statement does not quantify over I/O failures: record what happened, judge nothing.
      o.count("fault.open_failure_injected");
      o.count(std::string("recorded.open_failure.status_") + (r.status() == 0 ? "zero" : "nonzero"));
      o.note = "completed:recorded_only";
      return;
    }
    if (r.t.kind == sim::Trapped::CRASHED && r.t.signal == SIGALRM) { o.note = "skipped:watchdog"; o.count("probe.watchdog_hit"); return; }   // wall-clock never decides a verdict
    if (r.t.kind == sim::Trapped::CRASHED) { o.violate("crashed", tool + " " + r.t.str() + " [source '" + clip(srcText, 60) + "']", "crashed:" + tool); return; }

    if (toPipe && listing.empty()) {
      // Same contract, the file being a pipe: status 0 and exactly the binary's bytes through the pipe
      // for an accepted source; non-zero, a diagnostic and not a byte through it otherwise.
      std::string got = sim::fs::drainPipe(pipePath);
      if (inputPresent && lr.accepted) {
        if (r.status() != 0) o.violate("contract_status", tool + " exits " + std::to_string(r.status()) + " on an accepted source when the output is a pipe (" + clip(r.err, 50) + ")", "contract_status:" + tool + ":pipe_accepted_nonzero");
        else if (got != lr.bytes) {
          size_t at = 0; while (at < got.size() && at < lr.bytes.size() && got[at] == lr.bytes[at]) at++;
          o.violate("contract_file", tool + " exits 0 but the pipe named by the output option received " + std::to_string(got.size()) + " bytes that differ from the binary (" + std::to_string(lr.bytes.size()) + " bytes) at byte " + std::to_string(at), "contract_file:" + tool + ":pipe_output_wrong");
        }
      } else {
        if (r.status() == 0) o.violate("contract_status", tool + " exits 0 on a " + srcClass + " source (output is a pipe)", "contract_status:" + tool + ":" + srcClass + "_zero");
        else if (!got.empty()) o.violate("contract_file", tool + " sent " + std::to_string(got.size()) + " bytes into the output pipe although the source was rejected", "contract_file:" + tool + ":pipe_bytes_on_error");
      }
      return;
    }

    // Listing-only invocations: status alone.
    if (!listing.empty() && tool != "xrun") {
      bool ok = inputPresent && listingOk;
      if (listing == "--memory-info") ok = inputPresent && lr.accepted;   // still emits the binary
      if (ok && r.status() != 0) o.violate("contract_status", tool + " " + listing + " exits " + std::to_string(r.status()) + " although the library entry point accepts the source [" + clip(srcText, 60) + "]", "contract_status:" + tool + ":listing_accepted_nonzero");
      else if (!ok && r.status() == 0) o.violate("contract_status", tool + " " + listing + " exits 0 although the source is " + srcClass + " (" + clip(r.err, 50) + ") [" + clip(srcText, 60) + "]", "contract_status:" + tool + ":" + (inputPresent ? "listing_rejected_zero" : "missing_input_zero"));
      return;
    }

    if (tool == "xrun") {
      judgeXrun(r, args, fileArg, input, srcText, inputPresent, lr, o);
      // Besides behaving like the pair, the status is the program's exit value whenever the EXIT call
      // is executed inside the cycle budget (cycles <= N runs N+1 instructions).
      if (!o.violated && isaKnown && r.t.kind != sim::Trapped::CRASHED) {
        uint64_t k = limitOf(args);
        if (k == 0 || isaSteps <= k + 1) {
          if (r.status() != (int)(isaExit & 0xFF)) o.violate("contract_status", "xrun exits " + std::to_string(r.status()) + ", the program's exit value is " + std::to_string((int32_t)isaExit) + (k ? " (EXIT is instruction " + std::to_string(isaSteps) + " of the " + std::to_string(k + 1) + " that --max-cycles " + std::to_string(k) + " allows)" : ""), "contract_status:xrun:exit_value");
          else o.count("probe.xrun_status_checked");
          if (k && isaSteps == k + 1) o.count("probe.exit_on_last_permitted_instruction");
        }
      }
      return;
    }

    // xcmp / hexasm emitting a binary.
    if (inputPresent && lr.accepted) {
      if (r.status() != 0) { o.violate("contract_status", tool + " exits " + std::to_string(r.status()) + " on an accepted source (" + clip(r.err, 50) + ")", "contract_status:" + tool + ":accepted_nonzero"); return; }
      auto it = r.after.find(effOut);
      if (it == r.after.end()) {
        std::string where;
        for (auto &kv : r.after) if (!r.before.count(kv.first) || r.before.at(kv.first) != kv.second) where += " " + kv.first;
        o.violate("contract_file", tool + " exits 0 but " + effOut + " does not exist (files written:" + (where.empty() ? " none" : where) + ")", "contract_file:" + tool + ":output_missing");
        return;
      }
      if (it->second != lr.bytes) {
        bool untouched = r.before.count(effOut) && r.before.at(effOut) == it->second;
        std::string where;
        for (auto &kv : r.after) if (kv.first != effOut && (!r.before.count(kv.first) || r.before.at(kv.first) != kv.second)) where += " " + kv.first;
        o.violate("contract_file", tool + " exits 0 but " + effOut + (untouched ? " still holds its old content" : " does not hold the binary") + " (" + std::to_string(it->second.size()) + " bytes, expected " + std::to_string(lr.bytes.size()) +
                  "; other files written:" + (where.empty() ? " none" : where) + ")", "contract_file:" + tool + ":output_wrong");
        return;
      }
      return;
    }
    // Rejected source or missing input: non-zero, a diagnostic, nothing new or truncated.
    if (r.status() == 0) { o.violate("contract_status", tool + " exits 0 on a " + srcClass + " source (" + clip(r.err, 60) + ") [" + clip(srcText, 50) + "]", "contract_status:" + tool + ":" + srcClass + "_zero"); return; }
    if (r.err.empty()) { o.violate("contract_status", tool + " rejects the source without a diagnostic", "contract_status:" + tool + ":no_diagnostic"); return; }
    {
      auto b = r.before.find(effOut), a = r.after.find(effOut);
      if (b == r.before.end() && a != r.after.end()) { o.violate("contract_file", tool + " left a new " + effOut + " (" + std::to_string(a->second.size()) + " bytes) after rejecting the source", "contract_file:" + tool + ":new_output_on_error"); return; }
      if (b != r.before.end() && (a == r.after.end() || a->second != b->second)) { o.violate("contract_file", tool + " changed the existing " + effOut + " after rejecting the source", "contract_file:" + tool + ":output_clobbered_on_error"); return; }
      std::string by = bystandersChanged(r, effOut);
      if (!by.empty()) { o.violate("contract_file", tool + ": " + by + " although the source was rejected", "contract_file:" + tool + ":bystander_changed"); return; }
      for (auto &kv : r.after) if (!r.before.count(kv.first) && kv.first != effOut) o.count("recorded.new_unrelated_file_on_error");
    }
  }

  static uint64_t limitOf(const std::vector<std::string> &args) {
    uint64_t v = 0;       // the option may be repeated: the last one counts
    for (size_t k = 0; k + 1 < args.size(); k++) if (args[k] == "--max-cycles") v = std::strtoull(args[k + 1].c_str(), nullptr, 10);
    return v;
  }
  // "--max-cycles @REL<r>" means: r instructions off the point where the limit just lets the EXIT in.
  static void resolveRelativeLimit(std::vector<std::string> &args, uint64_t steps) {
    for (size_t k = 0; k + 1 < args.size(); k++)
      if (args[k] == "--max-cycles" && args[k + 1].compare(0, 4, "@REL") == 0) {
        long rel = std::strtol(args[k + 1].c_str() + 4, nullptr, 10);
        long v = (long)steps - 1 + rel;
        args[k + 1] = std::to_string(v < 1 ? 1 : v);
      }
  }

  // xrun src == xcmp src -o f ; hexsim f
  void judgeXrun(const Inv &r, const std::vector<std::string> &args, const std::string &src, const std::string &input, const std::string &srcText, bool inputPresent, const Ref &lr, Outcome &o) {
    if (!inputPresent || !lr.accepted) {
      if (r.status() == 0) { o.violate("contract_status", std::string("xrun exits 0 on a ") + (inputPresent ? "rejected" : "missing") + " source (" + clip(r.err, 60) + ") [" + clip(srcText, 50) + "]", std::string("contract_status:xrun:") + (inputPresent ? "rejected_zero" : "missing_input_zero")); return; }
      if (r.err.empty()) { o.violate("contract_status", "xrun rejects the source without a diagnostic", "contract_status:xrun:no_diagnostic"); return; }
      auto b = r.before.find("a.bin"), a = r.after.find("a.bin");
      if (b == r.before.end() && a != r.after.end()) { o.violate("contract_file", "xrun left a new a.bin after rejecting the source", "contract_file:xrun:new_output_on_error"); return; }
      if (b != r.before.end() && (a == r.after.end() || a->second != b->second)) { o.violate("contract_file", "xrun changed the existing a.bin after rejecting the source", "contract_file:xrun:output_clobbered_on_error"); return; }
      std::string by = bystandersChanged(r, "a.bin");
      if (!by.empty()) { o.violate("contract_file", "xrun: " + by + " although the source was rejected", "contract_file:xrun:bystander_changed"); return; }
      return;
    }
    // Accepted: the pair xcmp + hexsim on the same source and input, with the same simulator options.
    std::vector<std::string> simArgs;
    for (size_t k = 0; k < args.size(); k++) {
      if (args[k] == "-t" || args[k] == "--trace") simArgs.push_back(args[k]);
      if (args[k] == "--max-cycles" && k + 1 < args.size()) { simArgs.push_back(args[k]); simArgs.push_back(args[k + 1]); }
    }
    auto stateBefore = r.before;
    sim::fs::reset();
    for (auto &kv : stateBefore) sim::fs::put(kv.first, kv.second);
    Inv c = invoke("xcmp", {src, "-o", "pair.bin"}, "");
    if (c.status() != 0 || !sim::fs::exists("pair.bin")) {
      // xcmp itself does not deliver (its own contract violation, reported when xcmp is the tool
      // under test): fall back to the library bytes so that xrun is still judged.
      sim::fs::put("pair.bin", lr.bytes);
      o.count("probe.pair_used_library_bytes");
    }
    simArgs.push_back("pair.bin");
    Inv h = invoke("hexsim", simArgs, input);
    if (h.t.kind == sim::Trapped::CRASHED || r.t.kind == sim::Trapped::CRASHED) { o.note = "skipped:simulator_crashed"; return; }
    if (r.out != h.out) { o.violate("contract_status", "xrun wrote " + std::to_string(r.out.size()) + " bytes to stdout ('" + clip(r.out, 24) + "'), xcmp+hexsim " + std::to_string(h.out.size()) + " ('" + clip(h.out, 24) + "')", "contract_status:xrun:stdout_differs"); return; }
    if (r.consumed != h.consumed) { o.violate("contract_status", "xrun consumed " + std::to_string(r.consumed) + " input bytes, xcmp+hexsim " + std::to_string(h.consumed), "contract_status:xrun:stdin_differs"); return; }
    if (r.status() != h.status()) { o.violate("contract_status", "xrun exits " + std::to_string(r.status()) + ", xcmp followed by hexsim exits " + std::to_string(h.status()) + " [" + clip(srcText, 60) + "]", "contract_status:xrun:status_differs"); return; }
    o.count("probe.xrun_pair_compared");
  }

  // hexsim f: status = the program's exit value modulo 256.
  void runHexsim(const Json &inv, std::vector<std::string> args, const std::string &input, const std::string &text, bool haveSource, Outcome &o) {
    if (!haveSource) { o.note = "skipped:no_source"; return; }
    bool isX = inv.getStr("build_with", "xcmp") == "xcmp";
    Ref lr = libraryRef(isX, text);
    if (!lr.usable || !lr.accepted) { o.note = "skipped:source_not_accepted"; return; }
    sim::fs::put("prog.bin", lr.bytes);
    bool limited = false; uint64_t maxCycles = 0;
    for (size_t k = 0; k < args.size(); k++) if (args[k] == "--max-cycles" && k + 1 < args.size()) { limited = true; maxCycles = std::strtoull(args[k + 1].c_str(), nullptr, 10); }
    uint32_t exitValue = 0; std::string out; size_t consumed = 0;
    bool traced = std::find(args.begin(), args.end(), "-t") != args.end();
    uint64_t steps = 0;
    bool wantClosed = inv.getBool("stdin_closed");
    std::string inputUsed = wantClosed ? std::string() : input;
    bool known = isaOutcome(lr.bytes, inputUsed, traced ? 3000 : 200000, exitValue, out, consumed, &steps);
    if (!known) { o.note = "skipped:program_outside_domain_or_budget"; return; }
    closedNow = wantClosed && !isaUsedFiles;
    if (closedNow) o.count("fault.stdin_closed");
    resolveRelativeLimit(args, steps);
    maxCycles = limitOf(args);
    Inv r = invoke("hexsim", args, inputUsed);
    o.nontrivial = true;
    o.simInstr = 1;
    o.stateKeys.push_back(std::string("c14 hexsim ") + (limited ? "limited" : "unlimited") + " exit=" + std::to_string(exitValue & 0xFF));
    if (r.t.kind == sim::Trapped::CRASHED && r.t.signal == SIGALRM) { o.note = "skipped:watchdog"; o.count("probe.watchdog_hit"); return; }
    if (r.t.kind == sim::Trapped::CRASHED) { o.violate("crashed", "hexsim " + r.t.str(), "crashed:hexsim"); return; }
    if (limited && steps > maxCycles + 1) { o.count("probe.hexsim_cut_before_exit_not_judged"); return; }    // a cut run's status is C12's subject
    if (limited && steps == maxCycles + 1) o.count("probe.exit_on_last_permitted_instruction");
    if (r.status() != (int)(exitValue & 0xFF)) o.violate("contract_status", "hexsim exits " + std::to_string(r.status()) + ", the program's exit value is " + std::to_string((int32_t)exitValue), "contract_status:hexsim:exit_value");
    else o.count("probe.hexsim_status_checked");
  }
};

} // namespace

int main(int argc, char **argv) {
  ToolSim h;
  return sim::driverMain(argc, argv, h);
}
