// lockstep: per-step refinement checks.
//   C02  hexsim (real, stepped through hook H1)  vs  hexref (independent ISA model)
//   C03  Verilated hex.sv+processor.sv+memory.sv (real) under the simulator's clock  vs  hexsim
//   C16  processor.sv vs verilog/processor.v vs synth/processor.v, three replicas in lock-step
#include "sim/driver.hpp"
#include "model/hexref.hpp"
#include "gen/imggen.hpp"

#include "hexsim.hpp"

#include <verilated.h>
#include "Vsv.h"
#include "Vsv__Syms.h"
#include "Vsv_hex.h"
#include "Vsv_memory.h"
#include "Vsv_processor.h"
#include "Vv.h"
#include "Vv__Syms.h"
#include "Vv_hex.h"
#include "Vv_memory.h"
#include "Vv_processor.h"
#include "Vsy.h"
#include "Vsy__Syms.h"
#include "Vsy_hex.h"
#include "Vsy_memory.h"
#include "Vsy_processor.h"

double sc_time_stamp() { return 0; }

using sim::Json;
using sim::Outcome;
using sim::Rng;

namespace {

const uint32_t W = hexref::W_HEXSIM;      // 200000 words: the range both implementations provide
const uint32_t RTLW = hexref::W_RTL;

//---------------------------------------------------------------------------------------------
// Corpus of toolchain binaries (built by mkcorpus from the working tree's xcmp/hexasm).
//---------------------------------------------------------------------------------------------
struct CorpusEntry { std::string name, image; std::vector<std::string> inputs; };
std::vector<CorpusEntry> g_corpus;
void loadCorpus() {
  const char *p = getenv("VERIF_CORPUS");
  if (!p || !*p) return;
  std::string text = sim::readFile(p);
  if (text.empty()) return;
  Json j = Json::parse(text);
  for (auto &e : j.a) {
    CorpusEntry c;
    c.name = e.getStr("name");
    c.image = sim::fromHex(e.getStr("image_hex"));
    if (auto *in = e.find("inputs")) for (auto &i : in->a) c.inputs.push_back(sim::fromHex(i.s));
    if (!c.image.empty()) g_corpus.push_back(c);
  }
}
const CorpusEntry *corpusByName(const std::string &n) {
  for (auto &c : g_corpus) if (c.name == n) return &c;
  return nullptr;
}

//---------------------------------------------------------------------------------------------
// One RTL replica under the simulator's clock.
//---------------------------------------------------------------------------------------------
// Verilator names a sub-module pointer u_x when the module has public signals and __PVT__u_x
// otherwise; accept either so that the harness does not depend on that detail.
template <class H> auto procPtr(H *h, int) -> decltype(h->u_processor) { return h->u_processor; }
template <class H> auto procPtr(H *h, long) -> decltype(h->__PVT__u_processor) { return h->__PVT__u_processor; }
template <class H> auto memPtr(H *h, int) -> decltype(h->u_memory) { return h->u_memory; }
template <class H> auto memPtr(H *h, long) -> decltype(h->__PVT__u_memory) { return h->__PVT__u_memory; }

template <class V> struct Rtl {
  VerilatedContext ctx;
  V *top;
  Rtl() {
    ctx.randReset(2);
    ctx.randSeed(12345);            // never 0: seed 0 would continue a process-wide lrand48 stream
    static const char *av[] = {"lockstep", nullptr};
    ctx.commandArgs(1, av);         // hex.sv's initial block asks for +trace
    top = new V(&ctx, "TOP");
    top->i_clk = 0;
    top->i_rst = 0;
    top->eval();
  }
  ~Rtl() { top->final(); delete top; }
  uint32_t &pc() { return procPtr(top->hex, 0)->pc_q; }
  uint32_t &areg() { return procPtr(top->hex, 0)->areg_q; }
  uint32_t &breg() { return procPtr(top->hex, 0)->breg_q; }
  uint32_t &oreg() { return procPtr(top->hex, 0)->oreg_q; }
  uint32_t *mem() { return memPtr(top->hex, 0)->memory_q.data(); }
  // Outputs of the processor (pre-edge, combinational).
  uint32_t fAddr() { return top->hex->req_f_addr; }
  bool dValid() { return top->hex->req_d_valid; }
  bool dWe() { return top->hex->req_d_we; }
  uint32_t dAddr() { return top->hex->req_d_addr; }
  uint32_t dData() { return top->hex->req_d_data; }
  bool sysValid() { return top->o_syscall_valid; }
  uint32_t sysNo() { return top->o_syscall; }
  // Re-evaluate all combinational logic after a back-door change of registers or memory:
  // Verilator only re-runs its settle phase on the first eval(), so ask for that again.
  void settle() { top->hex->vlSymsp->__Vm_didInit = false; top->eval(); }
  void setRegs(uint32_t p, uint32_t a, uint32_t b, uint32_t o) { pc() = p & 0x1FFFFF; areg() = a; breg() = b; oreg() = o; }
  void edge() { top->i_clk = 1; top->eval(); top->i_clk = 0; top->eval(); }
  void rst(bool v) { top->i_rst = v; top->eval(); }
};

Rtl<Vsv> *g_sv;
Rtl<Vv> *g_v;
Rtl<Vsy> *g_sy;

// hexsim::Processor lives in a static buffer: constructed per run, 800 kB, no heap traffic.
alignas(64) char g_procBuf[sizeof(hexsim::Processor)];
bool observeOne(void *, hexsim::Processor &) { return false; }   // stop after every instruction

hexref::Machine *g_ref;      // W words
std::vector<uint32_t> g_dirty;   // words of g_ref->mem touched in the current run (restored afterwards)

void fillGarbage(uint32_t *m, uint32_t words, uint64_t seed) {
  uint64_t s = seed;
  for (uint32_t k = 0; k + 1 < words; k += 2) {
    uint64_t v = sim::splitmix64(s);
    m[k] = (uint32_t)v; m[k + 1] = (uint32_t)(v >> 32);
  }
}

std::string hx(uint32_t v) { char b[16]; std::snprintf(b, sizeof b, "%08x", v); return b; }

struct Teleport { uint64_t at; uint32_t pc, a, b, o; bool hasMem; uint32_t maddr, mval; bool hasSp = false; uint32_t sp = 0; };
struct Pulse { uint64_t at; unsigned len; };
struct ClockJump { uint64_t at; uint64_t cycles; };     // C02: the simulator's cycle counter (its own clock) jumps

// Systematic part of the search: one instruction byte against every combination of the corner
// values below, one instruction per combination (teleport, step, compare).
std::vector<Teleport> gridTeleports(uint8_t inst, uint32_t base) {
  std::vector<Teleport> out;
  base &= ~3u;                                                       // a word inside the image region
  static const uint32_t A[] = {0, 1, 2, 3, 0x7FFFFFFF, 0x80000000u, 0x80000001u, 0xFFFFFFFFu, 0xFFFFFFF0u, 199999, 200000, 40};
  static const uint32_t B[] = {0, 1, 3, 0x7FFFFFFE, 0x80000000u, 0xFFFFFFFFu, 0xFFFFFFFCu, 199998, 200001, 44, 800000, 799999};
  static const uint32_t O[] = {0, 0x10, 0xF0, 0xFFFFFF00u, 0xFFFFFFF0u, 0x00030D40u, 0x7FFFFFF0u, 0x80000000u};
  uint64_t at = 0;
  for (uint32_t lane = 0; lane < 4; lane++)
    for (uint32_t a : A) for (unsigned bi = 0; bi < 12; bi++) for (uint32_t o : O) {
      uint32_t b = B[bi];
      if (inst == 0xD3 && o == 0 && a == 0) continue;                // EXIT ends a run: left to the random part
      Teleport t;
      t.at = at++;
      t.pc = base + lane; t.a = a; t.b = b; t.o = o;
      t.hasMem = true; t.maddr = base >> 2;
      t.mval = (0x30303030u & ~(0xFFu << (lane * 8))) | ((uint32_t)inst << (lane * 8));   // neighbours: LDAC 0
      if (inst == 0xD3) {
        // System calls address their slots through the stack pointer: breg's corner index picks it.
        static const uint32_t SP[] = {150000, 0xFFFFFFFFu, 0xFFFFFFFEu, 0xFFFFFFFDu, 0xFFFFFFFCu, 0, 1, 199996, 199997, 199995, 100, 16383};
        t.hasSp = true; t.sp = SP[bi];
      }
      out.push_back(t);
    }
  return out;
}

struct PlanView {
  std::string mode;              // c02 | c03 | c16prog | c16free
  uint64_t maxSteps = 2000;
  std::string image, input;
  unsigned tailCut = 0;          // the file ends this many bytes (0-3) before the end of the last image word
  uint64_t poweron = 0; bool hasPoweron = false;
  unsigned resetLen = 1;
  std::vector<Teleport> teleports;
  std::vector<Pulse> pulses;
  std::vector<ClockJump> jumps;
  std::string simin[8]; bool siminPresent[8] = {};
  std::string simoutPre[8]; bool simoutPrePresent[8] = {};
  bool dirtyArena = false; uint64_t arenaSeed = 0;
};

PlanView view(const Json &plan) {
  PlanView v;
  const Json &cfg = plan.at("config");
  v.mode = cfg.getStr("mode", "c02");
  v.maxSteps = cfg.getU64("max_steps", 2000);
  for (auto &op : plan.at("ops").a) {
    std::string k = op.getStr("op");
    if (k == "image") {
      if (op.has("hex")) v.image = sim::fromHex(op.getStr("hex"));
      else if (auto *c = corpusByName(op.getStr("corpus"))) v.image = c->image;
      v.tailCut = (unsigned)(op.getU64("tail_cut") % 4);
    } else if (k == "input") v.input = sim::fromHex(op.getStr("hex"));
    else if (k == "poweron") { v.hasPoweron = true; v.poweron = op.getU64("seed"); }
    else if (k == "reset") v.resetLen = 1 + (unsigned)(op.getU64("len") % 4);
    else if (k == "reset_pulse") v.pulses.push_back({op.getU64("at"), 1 + (unsigned)(op.getU64("len") % 3)});
    else if (k == "clock_jump") v.jumps.push_back({op.getU64("at"), op.getU64("cycles")});
    else if (k == "teleport") {
      Teleport t;
      t.at = op.getU64("at");
      t.pc = (uint32_t)op.getU64("pc"); t.a = (uint32_t)op.getU64("areg"); t.b = (uint32_t)op.getU64("breg"); t.o = (uint32_t)op.getU64("oreg");
      t.hasMem = op.has("maddr");
      t.maddr = (uint32_t)op.getU64("maddr"); t.mval = (uint32_t)op.getU64("mval");
      t.hasSp = op.has("sp"); t.sp = (uint32_t)op.getU64("sp");
      v.teleports.push_back(t);
    } else if (k == "simin") { unsigned i = (unsigned)(op.getU64("idx") & 7); v.siminPresent[i] = true; v.simin[i] = sim::fromHex(op.getStr("hex")); }
    else if (k == "simout_pre") { unsigned i = (unsigned)(op.getU64("idx") & 7); v.simoutPrePresent[i] = true; v.simoutPre[i] = sim::fromHex(op.getStr("hex")); }
    else if (k == "arena") { v.dirtyArena = true; v.arenaSeed = op.getU64("seed"); }
    else if (k == "grid") {
      // Systematic part of the search: one instruction byte against every combination of the
      // corner values below, one instruction per combination (teleport, step, compare).
      std::vector<Teleport> g = gridTeleports((uint8_t)op.getU64("inst"), (uint32_t)op.getU64("base", 64));
      v.teleports.insert(v.teleports.end(), g.begin(), g.end());
      v.maxSteps = g.size();
    }
  }
  // Every run started from reset has oreg[3:0] == 0 at instruction boundaries (oreg is 0, or the
  // result of PFIX/NFIX, which shift by four).  The RTL decodes OPR from the instruction's own
  // operand nibble and relies on that invariant, and C03/C16-program runs are "started from reset",
  // so teleports in those modes stay inside it.  C02 ("from any architectural state") does not mask.
  if (v.mode != "c02") for (auto &t : v.teleports) t.o &= ~15u;
  while (v.image.size() % 4) v.image.push_back('\0');
  // A file may stop inside its last word (the X-hosted compiler writes such images): the loader
  // leaves the missing bytes zero.  In the model those bytes of the image are simply zero.
  if (v.tailCut && v.image.size() >= 8) for (unsigned k = 0; k < v.tailCut; k++) v.image[v.image.size() - 1 - k] = '\0'; else v.tailCut = 0;
  std::sort(v.teleports.begin(), v.teleports.end(), [](const Teleport &x, const Teleport &y) { return x.at < y.at; });
  std::sort(v.pulses.begin(), v.pulses.end(), [](const Pulse &x, const Pulse &y) { return x.at < y.at; });
  return v;
}

// State-measure key for one executed instruction.
const char *aClass(uint32_t a) { return a == 0 ? "0" : a == 0x80000000u ? "min" : (int32_t)a < 0 ? "neg" : "pos"; }
void stateKey(Outcome &o, std::set<uint32_t> &seen, const hexref::Machine &m, uint8_t inst, unsigned chain, uint32_t operand, bool taken, uint32_t imgWords, const hexref::Step &st) {
  unsigned op = inst >> 4;
  unsigned ac = m.areg == 0 ? 0 : m.areg == 0x80000000u ? 1 : (int32_t)m.areg < 0 ? 2 : 3;
  unsigned sign = operand == 0 ? 0 : (int32_t)operand < 0 ? 1 : 2;
  unsigned addrc = 0;
  if (st.wrote) addrc = st.waddr < imgWords ? 1 : st.waddr >= W - 16 ? 3 : 2;
  unsigned sub = op == 0xD ? (operand & 3) : 0;
  uint32_t code = op | (sub << 4) | ((chain > 9 ? 9 : chain) << 6) | (sign << 10) | (ac << 12) | ((unsigned)taken << 14) | (addrc << 15);
  if (op == 0xD && sub == 3) code |= (st.sysno & 3) << 17;
  if (seen.insert(code).second) {
    char b[96];
    std::snprintf(b, sizeof b, "op=%x.%u chain=%u osign=%u a=%u taken=%d addr=%u sys=%u", op, sub, chain > 9 ? 9 : chain, sign, ac, (int)taken, addrc, (code >> 17) & 3);
    o.stateKeys.push_back(b);
  }
}

//---------------------------------------------------------------------------------------------
// The harness.
//---------------------------------------------------------------------------------------------
class Lockstep : public sim::Harness {
public:
  const char *name() const override { return "lockstep"; }

  void workerInit() override {
    if (g_ref) return;
    loadCorpus();
    g_ref = new hexref::Machine(W);
    g_ref->enableWrittenTracking();
    if (property == "C03" || property == "C16") {
      g_sv = new Rtl<Vsv>();
    }
    if (property == "C16") {
      g_v = new Rtl<Vv>();
      g_sy = new Rtl<Vsy>();
    }
  }

  Json describe() override {
    Json d = Json::object();
    Json real = Json::array(), stub = Json::array();
    if (property == "C02") {
      real.push("hexsim.hpp Processor::load/run/syscall (working tree, -DHEX_VERIF)"); real.push("hexsimio.hpp HexSimIO"); real.push("libstdc++ fstream/filebuf");
      stub.push("stdin/stdout (byte-granular simulator streambufs)"); stub.push("files (memfd-backed table behind fopen/fopen64)");
      d["oracle"] = "hexref (model/hexref.hpp), compared after every instruction";
    } else if (property == "C03") {
      real.push("verilog/hex.sv, processor.sv, memory.sv, hex_pkg.sv (Verilator 5.006, --public-flat-rw -fno-inline)"); real.push("hexsim.hpp Processor::run (oracle, stepped through H1)");
      stub.push("clock and reset driver"); stub.push("system-call shim (performed on RTL memory by the harness exactly as hextb does)"); stub.push("power-on contents");
      d["oracle"] = "hexsim after the same number of instructions; hexref only cuts runs that leave the stated domain";
    } else {
      real.push("verilog/processor.sv, verilog/processor.v, synth/processor.v each under verilog/hex.sv + memory.sv");
      stub.push("clock and reset driver"); stub.push("system-call shim"); stub.push("register and memory teleports");
      d["oracle"] = "pairwise equality of outputs before and state after every clock";
    }
    d["real"] = real; d["stubbed"] = stub;
    d["corpus_programs"] = (unsigned long long)g_corpus.size();
    return d;
  }

  //-------------------------------------------------------------------------------------------
  // Plan generation
  //-------------------------------------------------------------------------------------------
  Json generate(uint64_t runSeed, uint64_t index) override {
    Rng r(runSeed);
    Json plan = Json::object();
    Json cfg = Json::object();
    Json ops = Json::array();
    std::string mode = property == "C02" ? "c02" : property == "C03" ? "c03" : (index % 2 ? "c16free" : "c16prog");
    cfg["mode"] = mode;
    bool thorough = tier == "thorough";
    if (index >= 1000 && index < 1256) {
      // Systematic part: instruction byte (index - 1000) against the corner-state grid.
      unsigned inst = (unsigned)(index - 1000);
      if (mode == "c16free" || mode == "c16prog") {
        cfg["mode"] = "c16free"; cfg["max_steps"] = 1;
        Json po = Json::object(); po["op"] = "poweron"; po["seed"] = (unsigned long long)(r.next() >> 16); ops.push(po);
        Json g = Json::object(); g["op"] = "gridfree"; g["inst"] = inst; ops.push(g);
      } else {
        cfg["max_steps"] = 1;
        Json im = Json::object(); im["op"] = "image";
        // BR to byte 8; stack pointer 150000; then LDAC 0 filler up to word 32.
        std::string img = std::string("\x97\x30\x30\x30", 4);
        uint32_t sp = 150000; for (int q = 0; q < 4; q++) img.push_back((char)(sp >> (8 * q)));
        img += std::string(30 * 4, '\x30');
        im["hex"] = sim::toHex(img); ops.push(im);
        Json in = Json::object(); in["op"] = "input"; std::string data; for (int q = 0; q < 64; q++) data.push_back((char)r.below(256)); in["hex"] = sim::toHex(data); ops.push(in);
        if (mode != "c02") { Json po = Json::object(); po["op"] = "poweron"; po["seed"] = (unsigned long long)(r.next() >> 16); ops.push(po); }
        Json g = Json::object(); g["op"] = "grid"; g["inst"] = inst; g["base"] = 64; ops.push(g);
      }
      plan["config"] = cfg; plan["ops"] = ops;
      return plan;
    }
    // Swarm: which fault kinds this run may use.
    bool fTeleport = r.chance(1, 2), fPulse = r.chance(1, 2), fFiles = r.chance(1, 3), fShortIn = r.chance(1, 2), fPoweron = true;
    uint64_t maxSteps = 200 + r.below(thorough ? 20000 : 4000);
    if (mode == "c16free") {
      cfg["max_steps"] = (unsigned long long)(500 + r.below(thorough ? 6000 : 2500));
      Json op = Json::object(); op["op"] = "poweron"; op["seed"] = (unsigned long long)(r.next() >> 16); ops.push(op);
      Json t = Json::object(); t["op"] = "free"; t["seed"] = (unsigned long long)(r.next() >> 16); t["period"] = (unsigned long long)(1 + r.below(6));
      t["undef"] = r.chance(1, 2); ops.push(t);
      plan["config"] = cfg; plan["ops"] = ops;
      return plan;
    }
    // Image: corpus binary or generated.
    const CorpusEntry *ce = nullptr;
    if (!g_corpus.empty() && r.chance(1, 5)) ce = &g_corpus[r.below(g_corpus.size())];
    uint32_t imgWords;
    {
      Json op = Json::object(); op["op"] = "image";
      if (ce) { op["corpus"] = ce->name; imgWords = (uint32_t)(ce->image.size() / 4); maxSteps = 2000 + r.below(thorough ? 100000 : 20000); }
      else {
        gen::ImgCfg ic;
        ic.maxWords = r.chance(1, 4) ? 1024 : 128;
        ic.header = r.chance(7, 8);
        Rng ir = r.fork(1);
        std::string img = gen::makeImage(ir, ic);
        imgWords = (uint32_t)(img.size() / 4);
        op["hex"] = sim::toHex(img);
        if (mode == "c02" && r.chance(1, 4)) op["tail_cut"] = (unsigned long long)(1 + r.below(3));
      }
      ops.push(op);
    }
    cfg["max_steps"] = (unsigned long long)maxSteps;
    // Input.
    {
      std::string in;
      if (ce && !ce->inputs.empty() && r.chance(2, 3)) in = ce->inputs[r.below(ce->inputs.size())];
      else { size_t n = (size_t)r.below(r.chance(1, 4) ? 64 : 8); for (size_t k = 0; k < n; k++) in.push_back((char)(r.chance(1, 5) ? r.below(256) : 32 + r.below(95))); }
      if (fShortIn && !in.empty() && r.chance(1, 2)) in.resize((size_t)r.below(in.size()));     // EOF earlier than the program expects
      spiceInput(r, in);
      Json op = Json::object(); op["op"] = "input"; op["hex"] = sim::toHex(in); ops.push(op);
    }
    if (mode != "c02" && fPoweron) {
      Json op = Json::object(); op["op"] = "poweron"; op["seed"] = (unsigned long long)(r.next() >> 16); ops.push(op);
      Json rs = Json::object(); rs["op"] = "reset"; rs["len"] = (unsigned long long)r.below(4); ops.push(rs);
    }
    if (mode == "c02") {
      if (r.chance(1, 2)) { Json op = Json::object(); op["op"] = "arena"; op["seed"] = (unsigned long long)(r.next() >> 16); ops.push(op); }
      // Simulated-time jumps: the cycle counter lands just below a power of two that a narrower
      // counter type would not hold (no instruction may notice).
      if (r.chance(1, 3)) {
        unsigned n = 1 + (unsigned)r.below(2);
        for (unsigned k = 0; k < n; k++) {
          static const unsigned bits[] = {8, 15, 16, 24, 31, 32, 32, 33, 48, 62};
          Json op = Json::object(); op["op"] = "clock_jump";
          op["at"] = (unsigned long long)r.below(maxSteps < 200 ? maxSteps : 200);
          op["cycles"] = (unsigned long long)((1ull << bits[r.below(10)]) - r.below(6));
          ops.push(op);
        }
      }
      if (fFiles) {
        unsigned n = 1 + (unsigned)r.below(3);
        for (unsigned k = 0; k < n; k++) {
          Json op = Json::object();
          bool in = r.chance(2, 3);
          op["op"] = in ? "simin" : "simout_pre";
          op["idx"] = (unsigned long long)r.below(8);
          std::string d; size_t len = (size_t)r.below(6); for (size_t q = 0; q < len; q++) d.push_back((char)r.below(256));
          spiceInput(r, d);
          op["hex"] = sim::toHex(d);
          ops.push(op);
        }
      }
    }
    if (fTeleport) {
      unsigned n = 1 + (unsigned)r.below(4);
      for (unsigned k = 0; k < n; k++) ops.push(makeTeleport(r, maxSteps, imgWords, mode));
    }
    if (mode != "c02" && fPulse) {
      unsigned n = 1 + (unsigned)r.below(2);
      for (unsigned k = 0; k < n; k++) {
        Json op = Json::object(); op["op"] = "reset_pulse"; op["at"] = (unsigned long long)(1 + r.below(maxSteps < 400 ? maxSteps : 400)); op["len"] = (unsigned long long)r.below(3);
        ops.push(op);
      }
    }
    plan["config"] = cfg;
    plan["ops"] = ops;
    return plan;
  }

  // Bytes that text-mode or line-oriented input handling would treat specially (CR, LF, CR LF pairs, NUL, 0xFF,
  // Ctrl-Z, Ctrl-D, TAB, DEL): a read system call must deliver each of them as one byte like any other (seeded C02-15).
  static void spiceInput(Rng &r, std::string &d) {
    if (d.empty() || !r.chance(1, 2)) return;
    static const unsigned char special[] = {0x0d, 0x0a, 0x00, 0xff, 0x1a, 0x04, 0x09, 0x7f, 0x80, 0x1b, 0x0c, 0x08};
    unsigned n = 1 + (unsigned)r.below(3);
    for (unsigned k = 0; k < n; k++) {
      size_t at = (size_t)r.below(d.size());
      if (r.chance(1, 2) && at + 1 < d.size()) { bool crlf = r.chance(2, 3); d[at] = crlf ? '\r' : '\n'; d[at + 1] = crlf ? '\n' : '\r'; }
      else d[at] = (char)special[r.below(sizeof special)];
    }
  }
  Json makeTeleport(Rng &r, uint64_t maxSteps, uint32_t imgWords, const std::string &mode) {
    static const uint32_t corner[] = {0, 1, 0x7FFFFFFF, 0x80000000u, 0x80000001u, 0xFFFFFFFFu, 0xFFFFFFF0u, 0xFFFFFF00u, 0x000FFFFF, 0x00100000, 199999, 200000, 799999};
    auto val = [&]() -> uint32_t { return r.chance(1, 2) ? corner[r.below(sizeof corner / sizeof corner[0])] : r.chance(1, 2) ? (uint32_t)r.below(imgWords * 4 + 64) : r.u32(); };
    Json op = Json::object();
    op["op"] = "teleport";
    op["at"] = (unsigned long long)r.below(maxSteps < 300 ? maxSteps : 300);
    uint32_t pc = r.chance(3, 4) ? (uint32_t)r.below(imgWords * 4) : r.chance(1, 2) ? (uint32_t)(W * 4 - 1 - r.below(8)) : (uint32_t)r.below(W * 4);
    op["pc"] = pc;
    op["areg"] = val(); op["breg"] = val();
    op["oreg"] = r.chance(1, 2) ? 0u : r.chance(1, 2) ? (uint32_t)(r.below(16) << 4) : val();
    if (r.chance(1, 2)) {
      // Put a chosen instruction byte under the new pc so that corner states meet corner opcodes.
      static const uint8_t ops[] = {0xB0, 0xB3, 0xA2, 0x90, 0xF0, 0xFF, 0xE0, 0xEF, 0xD0, 0xD1, 0xD2, 0x50, 0x5F, 0x60, 0x70, 0x80, 0x20, 0x00, 0x10, 0x30, 0x40};
      uint8_t b = ops[r.below(sizeof ops)];
      op["maddr"] = pc >> 2;
      uint32_t w = r.u32();
      unsigned sh = (pc & 3) * 8;
      w = (w & ~(0xFFu << sh)) | ((uint32_t)b << sh);
      op["mval"] = w;
    }
    (void)mode;
    return op;
  }

  Json materialise(const Json &plan) override {
    Json p = plan;
    if (p.at("config").getStr("mode") == "c16free") {
      Json ops = Json::array();
      for (auto &op : p["ops"].a) {
        if (op.getStr("op") == "gridfree") {
          for (auto &t : gridFreeSteps((uint8_t)op.getU64("inst"))) ops.push(tpToJson(t));
          continue;
        }
        if (op.getStr("op") != "free") { ops.push(op); continue; }
        Json fc = Json::object(); fc["op"] = "free_cfg"; fc["undef"] = op.getBool("undef", true); ops.push(fc);
        for (auto &t : expandFree(op.getU64("seed"), 1 + op.getU64("period") % 8, p.at("config").getU64("max_steps", 2000))) ops.push(tpToJson(t));
      }
      p["ops"] = ops;
      return p;
    }
    {
      // Grid plans become explicit teleports so that the shrinker can cut them down.
      Json ops = Json::array();
      for (auto &op : p["ops"].a) {
        if (op.getStr("op") != "grid") { ops.push(op); continue; }
        std::vector<Teleport> g = gridTeleports((uint8_t)op.getU64("inst"), (uint32_t)op.getU64("base", 64));
        for (auto &t : g) {
          Json j = Json::object();
          j["op"] = "teleport"; j["at"] = (unsigned long long)t.at; j["pc"] = t.pc; j["areg"] = t.a; j["breg"] = t.b; j["oreg"] = t.o; j["maddr"] = t.maddr; j["mval"] = t.mval;
          if (t.hasSp) j["sp"] = t.sp;
          ops.push(j);
        }
        p["config"]["max_steps"] = (unsigned long long)g.size();
      }
      p["ops"] = ops;
    }
    for (auto &op : p["ops"].a) {
      if (op.getStr("op") == "image" && op.has("corpus")) {
        if (auto *c = corpusByName(op.getStr("corpus"))) { op["hex"] = sim::toHex(c->image); op["from_corpus"] = op.getStr("corpus"); op.erase("corpus"); }
      }
    }
    return p;
  }
  bool removable(const Json &op) override { return op.getStr("op") != "image" && op.getStr("op") != "free_cfg"; }

  //-------------------------------------------------------------------------------------------
  // Execution
  //-------------------------------------------------------------------------------------------
  Outcome execute(const Json &plan) override {
    PlanView v = view(plan);
    Outcome o;
    sim::Trapped t = sim::runTrapped([&]() {
      if (v.mode == "c02") o = runC02(v);
      else if (v.mode == "c03") o = runRtl(v, false);
      else if (v.mode == "c16prog") o = runRtl(v, true);
      else o = runFree(plan, v);
      return 0;
    });
    if (t.kind != sim::Trapped::RETURNED) {
      o = Outcome();
      o.violate("crashed", "harness body: " + t.str());
      o.hash = sim::g_log.hashHex();
    }
    return o;
  }

  void refStore(hexref::Machine &m) { if (m.last.wrote) g_dirty.push_back(m.last.waddr); }

  // Reset the reference machine's memory to zero (only the words the last run touched).
  void refRestore(const std::string &lastImage) {
    hexref::Machine &m = *g_ref;
    size_t iw = (lastImage.size() + 3) / 4;
    for (size_t k = 0; k < iw && k < W; k++) { m.mem[k] = 0; m.written[k] = 0; }
    for (uint32_t a : g_dirty) if (a < W) { m.mem[a] = 0; m.written[a] = 0; }
    g_dirty.clear();
  }

  //----------------------------- C02 ---------------------------------------------------------
  Outcome runC02(const PlanView &v) {
    Outcome o;
    sim::g_log.reset(sim::g_log.keep);
    sim::fs::reset();
    hexref::Machine &ref = *g_ref;
    hexref::Io rio;
    rio.input = v.input;
    for (int k = 0; k < 8; k++) {
      if (v.siminPresent[k]) { sim::fs::put("simin" + std::to_string(k), v.simin[k]); rio.fileExists[k] = true; rio.fileIn[k] = v.simin[k]; o.count("fault.simin_present"); }
      if (v.simoutPrePresent[k]) { sim::fs::put("simout" + std::to_string(k), v.simoutPre[k]); o.count("fault.simout_preexisting"); }
    }
    ref.reset();
    ref.io = &rio;
    ref.loadImage(v.image);
    // The binary file hexsim loads: length word, image.
    {
      std::string file;
      uint32_t words = (uint32_t)(v.image.size() / 4);
      for (int k = 0; k < 4; k++) file.push_back((char)(words >> (8 * k)));
      file += v.image.substr(0, v.image.size() - v.tailCut);
      if (v.tailCut) o.count("fault.file_ends_inside_last_word");
      sim::fs::put("img.bin", file);
    }
    sim::SimInBuf inb(0);
    sim::SimOutBuf outb(1);
    inb.load(v.input);
    std::istream ins(&inb);
    std::ostream outs(&outb);
    // Backing store: dirt first (the constructor does not clear memory), then cleared by the harness
    // because unwritten memory is C12's subject, not C02's; the dirt still covers every other member.
    if (v.dirtyArena) { fillGarbage((uint32_t *)g_procBuf, sizeof g_procBuf / 4, v.arenaSeed); o.count("fault.dirty_construction_memory"); }
    hexsim::Processor *p = new (g_procBuf) hexsim::Processor(ins, outs, 0);
    std::memset(p->verifMemory(), 0, (size_t)W * 4);
    p->verifObserver = observeOne;
    try { p->load("img.bin"); }
    catch (const std::exception &e) { o.violate("crashed", std::string("load() threw: ") + e.what()); finishC02(o, p, v); return o; }
    if (std::memcmp(p->verifMemory(), ref.mem.data(), (size_t)W * 4) != 0) { o.violate("state_diverged", "memory after load() differs from the image"); finishC02(o, p, v); return o; }

    std::set<uint32_t> seen;
    size_t ti = 0;
    uint32_t imgWords = (uint32_t)(v.image.size() / 4);
    unsigned chain = 0;
    size_t lastOut = 0, lastIn = 0;
    uint64_t step = 0;
    bool ended = false;
    for (; step < v.maxSteps; step++) {
      for (auto &j : v.jumps) if (j.at == step) { p->verifSetCycles((size_t)j.cycles); sim::g_log.ev("clock_jump", step, j.cycles); o.count("fault.clock_jump"); }
      while (ti < v.teleports.size() && v.teleports[ti].at <= step) {
        const Teleport &t = v.teleports[ti++];
        ref.pc = t.pc; ref.areg = t.a; ref.breg = t.b; ref.oreg = t.o;
        p->verifSetRegs(t.pc, t.a, t.b, t.o);
        if (t.hasMem && t.maddr < W) { ref.mem[t.maddr] = t.mval; ref.written[t.maddr] = 1; g_dirty.push_back(t.maddr); p->verifMemory()[t.maddr] = t.mval; }
        if (t.hasSp) { ref.mem[1] = t.sp; ref.written[1] = 1; g_dirty.push_back(1); p->verifMemory()[1] = t.sp; }
        sim::g_log.ev("teleport", t.pc, t.a, t.b);
        o.count("fault.teleport_fired");
        chain = 0;
      }
      hexref::Domain d = ref.classifyNext(false, false);
      if (d != hexref::D_OK) {
        o.count(std::string("cut.") + hexref::domainName(d));
        // A later teleport re-establishes a state: skip to it instead of ending the run.
        if (ti < v.teleports.size()) { if (v.teleports[ti].at > step) step = v.teleports[ti].at - 1; o.count("probe.resumed_at_next_teleport"); continue; }
        o.note = std::string("cut:") + hexref::domainName(d);
        break;
      }
      uint8_t inst = ref.byteAt(ref.pc);
      uint32_t operand = ref.oreg | (inst & 15);
      unsigned missing0 = rio.missingFileReads;
      // Key uses the state before the step.
      hexref::Machine *mp = &ref;
      uint32_t aBefore = ref.areg;
      ref.step();
      refStore(ref);
      size_t cyc0 = p->verifCycles();
      int rv = 0;
      try { rv = p->run(); }
      catch (const std::exception &e) { o.violate("crashed", "run() threw at step " + std::to_string(step) + " inst " + hx(inst).substr(6) + ": " + e.what(), "crashed:throw"); break; }
      // Relaxation: reading a missing simin<n> is not defined by the ISA text; demand only a byte value.
      if (rio.missingFileReads != missing0 && ref.last.wrote) {
        uint32_t got = p->verifMemory()[ref.last.waddr];
        if (got > 255) { o.violate("state_diverged", "read from a missing simin file stored " + hx(got)); break; }
        ref.mem[ref.last.waddr] = got;
        o.count("probe.read_missing_simin");
      }
      {
        uint32_t saveA = ref.areg; ref.areg = aBefore;   // classify by the pre-state areg
        stateKey(o, seen, *mp, inst, chain, operand, ref.last.taken, imgWords, ref.last);
        ref.areg = saveA;
      }
      if ((inst >> 4) >= 0xE) chain++; else chain = 0;
      if (chain >= 8) o.count("probe.prefix_chain_ge8");
      if ((inst >> 4) == 0xB && aBefore == 0x80000000u) o.count("probe.brn_int_min");
      if (p->verifPC() != ref.pc || p->verifAreg() != ref.areg || p->verifBreg() != ref.breg || p->verifOreg() != ref.oreg) {
        o.violate("state_diverged", "step " + std::to_string(step) + " inst " + hx(inst).substr(6) + ": hexsim pc/a/b/o=" + hx(p->verifPC()) + "/" + hx(p->verifAreg()) + "/" + hx(p->verifBreg()) + "/" + hx(p->verifOreg()) +
                  " ref=" + hx(ref.pc) + "/" + hx(ref.areg) + "/" + hx(ref.breg) + "/" + hx(ref.oreg), "state_diverged:op" + std::to_string(inst >> 4));
        break;
      }
      if (ref.last.wrote && p->verifMemory()[ref.last.waddr] != ref.mem[ref.last.waddr]) {
        o.violate("state_diverged", "step " + std::to_string(step) + ": stored word at " + hx(ref.last.waddr) + " is " + hx(p->verifMemory()[ref.last.waddr]) + ", ref " + hx(ref.mem[ref.last.waddr]), "state_diverged:store");
        break;
      }
      if (p->verifCycles() != cyc0 + 1) { o.violate("state_diverged", "run() executed " + std::to_string(p->verifCycles() - cyc0) + " instructions for one step", "state_diverged:cycles"); break; }
      sim::g_log.state(((uint64_t)ref.pc << 32) | ref.areg, ((uint64_t)ref.breg << 32) | ref.oreg);
      if (ref.last.syscall) {
        o.nontrivial = true;
        o.count(std::string("probe.syscall") + std::to_string(ref.last.sysno));
        // Per-step I/O comparison on the standard streams.
        size_t wantOut = rio.out.size(), wantIn = rio.inPos;
        if (outb.data.size() != wantOut || (wantOut > lastOut && outb.data.back() != rio.out.back())) {
          o.violate("io_history_differs", "step " + std::to_string(step) + ": stdout has " + std::to_string(outb.data.size()) + " bytes, ref " + std::to_string(wantOut), "io_history_differs:stdout");
          break;
        }
        if (inb.consumed() != wantIn) {
          o.violate("io_history_differs", "step " + std::to_string(step) + ": stdin consumed " + std::to_string(inb.consumed()) + ", ref " + std::to_string(wantIn), "io_history_differs:stdin");
          break;
        }
        lastOut = wantOut; lastIn = wantIn;
        (void)lastIn;
      }
      if (ref.last.exited) {
        if (p->verifRunning()) { o.violate("state_diverged", "EXIT did not stop the simulator"); break; }
        if ((uint32_t)rv != ref.exitValue) { o.violate("outcome_differs", "run() returned " + std::to_string(rv) + ", ref exit value " + std::to_string((int32_t)ref.exitValue), "outcome_differs:exit"); break; }
        o.note = "completed:exit";
        ended = true;
        step++;
        break;
      }
      if (!p->verifRunning()) { o.violate("state_diverged", "simulator stopped without EXIT"); break; }
      if ((step & 4095) == 4095 && std::memcmp(p->verifMemory(), ref.mem.data(), (size_t)W * 4) != 0) { o.violate("state_diverged", "full-memory comparison failed at step " + std::to_string(step), "state_diverged:memory"); break; }
    }
    if (!o.violated) {
      if (!ended && o.note == "completed") o.note = "completed:budget";
      if (std::memcmp(p->verifMemory(), ref.mem.data(), (size_t)W * 4) != 0) o.violate("state_diverged", "full-memory comparison failed at the end", "state_diverged:memory");
    }
    if (rio.eofReads) o.count("fault.read_at_eof_fired", rio.eofReads);
    if (rio.wrongModeOps) o.count("probe.wrong_mode_file_op", rio.wrongModeOps);
    if (v.input.size() > rio.inPos) o.count("probe.input_longer_than_read");
    o.simInstr = step;
    finishC02(o, p, v, &rio, &outb);
    return o;
  }

  void finishC02(Outcome &o, hexsim::Processor *p, const PlanView &v, hexref::Io *rio = nullptr, sim::SimOutBuf *outb = nullptr) {
    p->~Processor();      // closes the simout files
    if (rio && !o.violated) {
      if (outb->data != rio->out) o.violate("io_history_differs", "stdout bytes differ at the end", "io_history_differs:stdout");
      for (int k = 0; k < 8 && !o.violated; k++) {
        std::string name = "simout" + std::to_string(k);
        bool want = rio->fileOutCreated[k] || v.simoutPrePresent[k];
        std::string wantBytes = rio->fileOutCreated[k] ? rio->fileOut[k] : v.simoutPre[k];
        if (sim::fs::exists(name) != want) o.violate("io_history_differs", name + (want ? " missing" : " created unexpectedly"), "io_history_differs:file");
        else if (want && sim::fs::get(name) != wantBytes) o.violate("io_history_differs", name + " holds " + sim::toHex(sim::fs::get(name)) + ", ref " + sim::toHex(wantBytes), "io_history_differs:file");
        if (rio->fileOutCreated[k]) { o.count("probe.simout_written"); o.nontrivial = true; }
      }
    }
    refRestore(v.image);
    o.hash = sim::g_log.hashHex();
  }

  //----------------------------- C03 / C16 program mode ----------------------------------------
  // Service a system call on an RTL memory exactly as a testbench must.
  // The request is sampled before the edge that retires the SVC; a READ's result is written to
  // memory right after that edge (pendAddr/pendVal), which is when the ISA's SVC writes it: written
  // earlier it could replace the very instruction that is being retired (a program whose stack
  // pointer points into its own code), and that would be the shim's doing, not the processor's.
  static void serviceSyscall(uint32_t *mem, uint32_t no, hexref::Io &io, bool &exited, uint32_t &exitValue, bool &pend, uint32_t &pendAddr, uint32_t &pendVal) {
    uint32_t sp = mem[1];
    pend = false;
    if (no == 0) { exitValue = mem[(sp + 2) & (RTLW - 1)]; exited = true; }
    else if (no == 1) io.write((uint8_t)(mem[(sp + 2) & (RTLW - 1)] & 0xFF), (int32_t)mem[(sp + 3) & (RTLW - 1)]);
    else if (no == 2) { pend = true; pendAddr = (sp + 1) & (RTLW - 1); pendVal = io.read((int32_t)mem[(sp + 2) & (RTLW - 1)]) & 0xFF; }
  }

  Outcome runRtl(const PlanView &v, bool three) {
    Outcome o;
    sim::g_log.reset(sim::g_log.keep);
    sim::fs::reset();
    Rtl<Vsv> &sv = *g_sv;
    hexref::Machine &ref = *g_ref;
    uint32_t imgWords = (uint32_t)(v.image.size() / 4);

    // Power-on: garbage in every register and memory word (different per replica on purpose).
    auto poweron = [&](auto &m, uint64_t salt) {
      uint64_t s = sim::mix64(v.poweron, salt);
      fillGarbage(m.mem(), RTLW, s);
      m.setRegs((uint32_t)sim::splitmix64(s), (uint32_t)sim::splitmix64(s), (uint32_t)sim::splitmix64(s), (uint32_t)sim::splitmix64(s));
      m.top->i_clk = 0; m.top->i_rst = 0;
      m.settle();
    };
    poweron(sv, 1);
    if (three) { poweron(*g_v, 2); poweron(*g_sy, 3); }
    o.count("fault.poweron_garbage");
    // Reset asserted before the first clock edge, held for resetLen edges; image loaded while held.
    auto resetAll = [&](bool val) { sv.rst(val); if (three) { g_v->rst(val); g_sy->rst(val); } };
    auto edgeAll = [&]() { sv.edge(); if (three) { g_v->edge(); g_sy->edge(); } };
    resetAll(true);
    // Reset is asynchronous in processor.sv: the replicas must agree as soon as it is asserted, before
    // any clock edge (a copy with a synchronous reset would still hold its power-on garbage here).
    if (three) compareReplicas(o, 0, "reset asserted, before any clock edge");
    for (unsigned k = 0; k < v.resetLen; k++) edgeAll();
    auto loadInto = [&](auto &m) { std::memcpy(m.mem(), v.image.data(), v.image.size()); };
    loadInto(sv);
    if (three) {
      // The replicas share one memory image from here on (power-on garbage differed): copy sv's.
      std::memcpy(g_v->mem(), sv.mem(), (size_t)RTLW * 4);
      std::memcpy(g_sy->mem(), sv.mem(), (size_t)RTLW * 4);
    }
    // A store sitting at byte 0 writes during reset (memory.sv does not look at i_rst; that is C13's
    // subject).  One more edge with the final image, then the image at release is the starting point.
    resetAll(false);
    sv.settle(); if (three) { g_v->settle(); g_sy->settle(); }
    if (sv.pc() != 0 || sv.areg() != 0 || sv.breg() != 0 || sv.oreg() != 0) { o.violate("state_diverged", "registers not zero after reset: pc=" + hx(sv.pc()), "state_diverged:reset"); }
    if (three && !o.violated) compareReplicas(o, 0, "after reset");

    // Oracle: hexsim on the same memory.
    sim::SimInBuf inb(0);
    sim::SimOutBuf outb(1);
    inb.load(v.input);
    std::istream ins(&inb);
    std::ostream outs(&outb);
    hexsim::Processor *p = new (g_procBuf) hexsim::Processor(ins, outs, 0);
    p->verifObserver = observeOne;
    std::memcpy(p->verifMemory(), sv.mem(), (size_t)W * 4);
    // Domain monitor.
    hexref::Io refIo; refIo.input = v.input; refIo.keepHistory = false;
    ref.reset(); ref.io = &refIo;
    std::memcpy(ref.mem.data(), sv.mem(), (size_t)W * 4);
    bool refDirtyAll = true;  // ref memory is garbage-initialised in this mode; restored wholesale below
    (void)refDirtyAll;
    hexref::Io rtlIo; rtlIo.input = v.input; rtlIo.keepHistory = false;
    hexref::Io rtlIo2 = rtlIo, rtlIo3 = rtlIo;

    std::set<uint32_t> seen;
    size_t ti = 0, pi = 0;
    unsigned chain = 0;
    uint64_t clk = 0;
    bool ended = false;
    for (; clk < v.maxSteps && !o.violated; clk++) {
      // Teleports: all parties jump to the same state.
      while (ti < v.teleports.size() && v.teleports[ti].at <= clk) {
        const Teleport &t = v.teleports[ti++];
        uint32_t tpc = t.pc & 0x1FFFFF;
        auto tp = [&](auto &m) { m.setRegs(tpc, t.a, t.b, t.o); if (t.hasMem && t.maddr < W) m.mem()[t.maddr] = t.mval; if (t.hasSp) m.mem()[1] = t.sp; m.settle(); };
        tp(sv); if (three) { tp(*g_v); tp(*g_sy); }
        ref.pc = tpc; ref.areg = t.a; ref.breg = t.b; ref.oreg = t.o;
        p->verifSetRegs(tpc, t.a, t.b, t.o);
        if (t.hasMem && t.maddr < W) { ref.mem[t.maddr] = t.mval; p->verifMemory()[t.maddr] = t.mval; }
        if (t.hasSp) { ref.mem[1] = t.sp; p->verifMemory()[1] = t.sp; }
        sim::g_log.ev("teleport", tpc, t.a, t.b);
        o.count("fault.teleport_fired");
        chain = 0;
      }
      // Reset pulse = crash/restart: registers are volatile, memory survives.
      if (pi < v.pulses.size() && v.pulses[pi].at <= clk) {
        const Pulse &pu = v.pulses[pi++];
        uint8_t instAt = ref.pc < W * 4 ? ref.byteAt(ref.pc) : 0;
        if ((instAt >> 4) == 2 || (instAt >> 4) == 8) o.count("probe.reset_while_store_at_fetch");
        if (instAt == 0xD3) o.count("probe.reset_while_svc_at_fetch");
        if (ref.oreg != 0) o.count("probe.reset_inside_prefix_chain");
        resetAll(true);
        if (three) { compareReplicas(o, clk, "reset pulse asserted, before any clock edge"); if (o.violated) break; }
        // A pulse may also fall entirely between two clock edges (len 3 of the plan means no edge).
        for (unsigned k = 0; k < (pu.len == 3 ? 0u : pu.len); k++) edgeAll();
        resetAll(false);
        sv.settle(); if (three) { g_v->settle(); g_sy->settle(); }
        o.count("fault.reset_pulse_fired");
        o.nontrivial = true;
        sim::g_log.ev("reset_pulse", clk, pu.len);
        if (sv.pc() != 0 || sv.areg() != 0 || sv.breg() != 0 || sv.oreg() != 0) { o.violate("state_diverged", "registers not zero after a reset pulse at clock " + std::to_string(clk), "state_diverged:reset"); break; }
        if (three) {
          // After a pulse the replicas must agree on registers; memory may have taken the store that
          // commits on the reset edge in each replica alike, so it is compared too.
          compareReplicas(o, clk, "after reset pulse");
          if (o.violated) break;
          if (std::memcmp(g_v->mem(), sv.mem(), (size_t)RTLW * 4) || std::memcmp(g_sy->mem(), sv.mem(), (size_t)RTLW * 4)) { o.violate("state_diverged", "replica memories differ after a reset pulse", "state_diverged:replica_memory"); break; }
        }
        // The surviving image is the new starting point for the oracle.
        std::memcpy(p->verifMemory(), sv.mem(), (size_t)W * 4);
        std::memcpy(ref.mem.data(), sv.mem(), (size_t)W * 4);
        p->verifSetRegs(0, 0, 0, 0);
        ref.pc = ref.areg = ref.breg = ref.oreg = 0;
        chain = 0;
      }
      hexref::Domain d = ref.classifyNext(true, false);
      if (d != hexref::D_OK) {
        o.count(std::string("cut.") + hexref::domainName(d));
        if (ti < v.teleports.size()) { if (v.teleports[ti].at > clk) clk = v.teleports[ti].at - 1; o.count("probe.resumed_at_next_teleport"); continue; }
        o.note = std::string("cut:") + hexref::domainName(d);
        break;
      }
      uint8_t inst = ref.byteAt(ref.pc);
      uint32_t operand = ref.oreg | (inst & 15);
      uint32_t aBefore = ref.areg;
      bool isSvc = inst == 0xD3;       // in-domain, so oreg is 0 here when the operand nibble is 3
      // Pre-edge outputs.
      if (three) { compareOutputs(o, clk); if (o.violated) break; }
      if (three) isSvc = sv.sysValid();      // C16 judges the replicas against each other only
      if (sv.sysValid() != isSvc) { o.violate("state_diverged", "clock " + std::to_string(clk) + ": o_syscall_valid=" + std::to_string(sv.sysValid()) + " but the fetched byte is " + hx(inst).substr(6), "state_diverged:syscall_valid"); break; }
      if (!three && isSvc && sv.sysNo() != (ref.areg & 3)) { o.violate("state_diverged", "clock " + std::to_string(clk) + ": o_syscall=" + std::to_string(sv.sysNo()) + " areg=" + hx(ref.areg), "state_diverged:syscall_no"); break; }
      bool we = sv.dValid() && sv.dWe();
      uint32_t waddr = sv.dAddr(), wdata = sv.dData();
      bool rtlExit = false; uint32_t rtlExitValue = 0;
      bool pend1 = false, pend2 = false, pend3 = false; uint32_t pa1 = 0, pv1 = 0, pa2 = 0, pv2 = 0, pa3 = 0, pv3 = 0;
      if (isSvc) {
        serviceSyscall(sv.mem(), sv.sysNo(), rtlIo, rtlExit, rtlExitValue, pend1, pa1, pv1);
        if (three) { bool e2 = false; uint32_t x2 = 0; serviceSyscall(g_v->mem(), g_v->sysNo(), rtlIo2, e2, x2, pend2, pa2, pv2); serviceSyscall(g_sy->mem(), g_sy->sysNo(), rtlIo3, e2, x2, pend3, pa3, pv3); }
        o.nontrivial = true;
        o.count(std::string("probe.syscall") + std::to_string(ref.areg & 3));
      }
      // Oracle and monitor take the step.
      ref.step();
      int rv = 0;
      size_t cyc0 = p->verifCycles();
      try { rv = p->run(); }
      catch (const std::exception &e) { o.note = std::string("cut:oracle_failed ") + e.what(); break; }
      if (p->verifCycles() != cyc0 + 1) { o.note = "cut:oracle_step_count"; break; }
      // Rising edge.
      edgeAll();
      if (pend1) { sv.mem()[pa1] = pv1; sv.settle(); }
      if (pend2) { g_v->mem()[pa2] = pv2; g_v->settle(); }
      if (pend3) { g_sy->mem()[pa3] = pv3; g_sy->settle(); }
      {
        uint32_t saveA = ref.areg; ref.areg = aBefore;
        stateKey(o, seen, ref, inst, chain, operand, ref.last.taken, imgWords, ref.last);
        ref.areg = saveA;
      }
      if ((inst >> 4) >= 0xE) chain++; else chain = 0;
      if (chain >= 8) o.count("probe.prefix_chain_ge8");
      if ((inst >> 4) == 0xB && aBefore == 0x80000000u) o.count("probe.brn_int_min");
      if (three && (sv.pc() != p->verifPC() || sv.areg() != p->verifAreg() || sv.breg() != p->verifBreg() || sv.oreg() != p->verifOreg())) {
        // processor.sv disagrees with the simulator: that is C03's subject.  The monitor no longer
        // describes the replicas, so this run stops here; the replicas agreed with each other so far.
        compareReplicas(o, clk, "after edge");
        o.note = "cut:sv_differs_from_simulator"; o.count("cut.sv_differs_from_simulator");
        break;
      }
      if (sv.pc() != p->verifPC() || sv.areg() != p->verifAreg() || sv.breg() != p->verifBreg() || sv.oreg() != p->verifOreg()) {
        o.violate("state_diverged", "clock " + std::to_string(clk) + " inst " + hx(inst).substr(6) + ": rtl pc/a/b/o=" + hx(sv.pc()) + "/" + hx(sv.areg()) + "/" + hx(sv.breg()) + "/" + hx(sv.oreg()) +
                  " hexsim=" + hx(p->verifPC()) + "/" + hx(p->verifAreg()) + "/" + hx(p->verifBreg()) + "/" + hx(p->verifOreg()), "state_diverged:op" + std::to_string(inst >> 4));
        break;
      }
      bool simWrote = ref.last.wrote && !ref.last.syscall;
      if (three && (we != simWrote || (we && waddr != ref.last.waddr))) { compareReplicas(o, clk, "after edge"); o.note = "cut:sv_differs_from_simulator"; o.count("cut.sv_differs_from_simulator"); break; }
      if (we != simWrote) { o.violate("state_diverged", "clock " + std::to_string(clk) + " inst " + hx(inst).substr(6) + ": rtl write enable " + std::to_string(we) + ", simulator stored " + std::to_string(simWrote), "state_diverged:we"); break; }
      if (we) {
        if (!three && (waddr != ref.last.waddr || sv.mem()[waddr] != wdata || wdata != p->verifMemory()[ref.last.waddr])) {
          o.violate("state_diverged", "clock " + std::to_string(clk) + ": rtl stored " + hx(wdata) + " at " + hx(waddr) + " (now " + hx(sv.mem()[waddr & (RTLW - 1)]) + "), simulator " + hx(p->verifMemory()[ref.last.waddr]) + " at " + hx(ref.last.waddr), "state_diverged:store");
          break;
        }
      }
      if (!three && ref.last.syscall && ref.last.wrote && sv.mem()[ref.last.waddr] != p->verifMemory()[ref.last.waddr]) {
        o.violate("io_history_differs", "clock " + std::to_string(clk) + ": READ stored " + hx(sv.mem()[ref.last.waddr]) + " in the RTL memory and " + hx(p->verifMemory()[ref.last.waddr]) + " in the simulator", "io_history_differs:read");
        break;
      }
      if (three) { compareReplicas(o, clk, "after edge"); if (o.violated) break; if (we && (g_v->mem()[waddr] != wdata || g_sy->mem()[waddr] != wdata)) { o.violate("state_diverged", "replica stored word differs at clock " + std::to_string(clk), "state_diverged:replica_store"); break; } }
      sim::g_log.state(((uint64_t)sv.pc() << 32) | sv.areg(), ((uint64_t)sv.breg() << 32) | sv.oreg());
      if (ref.last.exited) {
        if (three) { o.note = "completed:exit"; ended = true; clk++; break; }
        if (!rtlExit || rtlExitValue != (uint32_t)rv) { o.violate("outcome_differs", "exit value rtl " + std::to_string(rtlExitValue) + " simulator " + std::to_string(rv), "outcome_differs:exit"); break; }
        o.note = "completed:exit"; ended = true; clk++;
        break;
      }
      if (!three && (clk & 4095) == 4095 && std::memcmp(sv.mem(), p->verifMemory(), (size_t)W * 4) != 0) { o.violate("state_diverged", "full-memory comparison failed at clock " + std::to_string(clk), "state_diverged:memory"); break; }
    }
    if (!o.violated && three) {
      if (!ended && o.note == "completed") o.note = "completed:budget";
      if (std::memcmp(g_v->mem(), sv.mem(), (size_t)RTLW * 4) || std::memcmp(g_sy->mem(), sv.mem(), (size_t)RTLW * 4)) o.violate("state_diverged", "replica memories differ at the end", "state_diverged:replica_memory");
    } else if (!o.violated && o.note.compare(0, 14, "cut:oracle_fai") != 0) {
      if (!ended && o.note == "completed") o.note = "completed:budget";
      if (std::memcmp(sv.mem(), p->verifMemory(), (size_t)W * 4) != 0) o.violate("state_diverged", "full-memory comparison failed at the end", "state_diverged:memory");
      else if (three && (std::memcmp(g_v->mem(), sv.mem(), (size_t)RTLW * 4) || std::memcmp(g_sy->mem(), sv.mem(), (size_t)RTLW * 4))) o.violate("state_diverged", "replica memories differ at the end", "state_diverged:replica_memory");
      else if (outb.data != rtlIo.out || inb.consumed() != rtlIo.inPos) o.violate("io_history_differs", "stdout/stdin history differs between RTL shim and simulator", "io_history_differs:std");
    }
    if (rtlIo.eofReads) o.count("fault.read_at_eof_fired", rtlIo.eofReads);
    o.simCycles = clk + v.resetLen;
    o.simInstr = clk;
    p->~Processor();
    // The monitor's memory was overwritten wholesale: clear it for the next C02-style use.
    std::fill(ref.mem.begin(), ref.mem.end(), 0u);
    g_dirty.clear();
    o.hash = sim::g_log.hashHex();
    return o;
  }

  void compareOutputs(Outcome &o, uint64_t clk) {
    Rtl<Vsv> &a = *g_sv; Rtl<Vv> &b = *g_v; Rtl<Vsy> &c = *g_sy;
    auto bad = [&](const char *what, uint32_t x, uint32_t y, uint32_t z) {
      o.violate("state_diverged", "clock " + std::to_string(clk) + ": output " + what + " sv=" + hx(x) + " v=" + hx(y) + " synth=" + hx(z), std::string("state_diverged:out_") + what);
    };
    if (a.fAddr() != b.fAddr() || a.fAddr() != c.fAddr()) return bad("o_f_addr", a.fAddr(), b.fAddr(), c.fAddr());
    if (a.dValid() != b.dValid() || a.dValid() != c.dValid()) return bad("o_d_valid", a.dValid(), b.dValid(), c.dValid());
    if (a.dWe() != b.dWe() || a.dWe() != c.dWe()) return bad("o_d_we", a.dWe(), b.dWe(), c.dWe());
    if (a.dAddr() != b.dAddr() || a.dAddr() != c.dAddr()) return bad("o_d_addr", a.dAddr(), b.dAddr(), c.dAddr());
    if (a.dData() != b.dData() || a.dData() != c.dData()) return bad("o_d_data", a.dData(), b.dData(), c.dData());
    if (a.sysValid() != b.sysValid() || a.sysValid() != c.sysValid()) return bad("o_syscall_valid", a.sysValid(), b.sysValid(), c.sysValid());
    if (a.sysNo() != b.sysNo() || a.sysNo() != c.sysNo()) return bad("o_syscall", a.sysNo(), b.sysNo(), c.sysNo());
  }
  void compareReplicas(Outcome &o, uint64_t clk, const char *when) {
    Rtl<Vsv> &a = *g_sv; Rtl<Vv> &b = *g_v; Rtl<Vsy> &c = *g_sy;
    if (a.pc() != b.pc() || a.areg() != b.areg() || a.breg() != b.breg() || a.oreg() != b.oreg())
      o.violate("state_diverged", std::string(when) + " clock " + std::to_string(clk) + ": sv pc/a/b/o=" + hx(a.pc()) + "/" + hx(a.areg()) + "/" + hx(a.breg()) + "/" + hx(a.oreg()) + " verilog/processor.v=" + hx(b.pc()) + "/" + hx(b.areg()) + "/" + hx(b.breg()) + "/" + hx(b.oreg()), "state_diverged:replica_v");
    else if (a.pc() != c.pc() || a.areg() != c.areg() || a.breg() != c.breg() || a.oreg() != c.oreg())
      o.violate("state_diverged", std::string(when) + " clock " + std::to_string(clk) + ": sv pc/a/b/o=" + hx(a.pc()) + "/" + hx(a.areg()) + "/" + hx(a.breg()) + "/" + hx(a.oreg()) + " synth/processor.v=" + hx(c.pc()) + "/" + hx(c.areg()) + "/" + hx(c.breg()) + "/" + hx(c.oreg()), "state_diverged:replica_synth");
  }

  //----------------------------- C16 free mode -------------------------------------------------
  // No domain monitor: every instruction byte and state is allowed; only the replicas are compared.
  // A run is a list of "tp" steps: jump all replicas to one state, put one word under the pc, clock n
  // times.  In a batch the list is expanded from free{seed,...}; a replay file holds it explicitly so
  // that the shrinker can cut it down to the one step that matters.
  struct Tp { uint32_t pc, a, b, o, mval; unsigned clocks; uint32_t readval; bool pulse; };

  static std::vector<Tp> expandFree(uint64_t seed, uint64_t period, uint64_t maxSteps) {
    static const uint32_t corner[] = {0, 1, 0x7FFFFFFF, 0x80000000u, 0xFFFFFFFFu, 0xFFFFFFF0u, 0xFFFFFF00u, 0x000FFFFF, 0x00100000, 0x001FFFFF, 0x00200000, 0x0007FFFF, 0x00080000};
    Rng r(sim::mix64(seed, 77));
    auto val = [&]() -> uint32_t { return r.chance(1, 3) ? corner[r.below(sizeof corner / sizeof corner[0])] : r.chance(1, 3) ? (uint32_t)r.below(1 << 21) : r.u32(); };
    std::vector<Tp> v;
    for (uint64_t clk = 0; clk < maxSteps; clk += period) {
      Tp t;
      t.pc = val(); t.a = val(); t.b = val(); t.o = r.chance(1, 2) ? 0 : val();
      t.mval = r.u32(); t.clocks = (unsigned)period; t.readval = r.u32() & 0xFF; t.pulse = r.chance(1, 40);
      v.push_back(t);
    }
    return v;
  }
  static std::vector<Tp> gridFreeSteps(uint8_t inst) {
    std::vector<Tp> out;
    static const uint32_t A[] = {0, 1, 2, 3, 0x7FFFFFFF, 0x80000000u, 0x80000001u, 0xFFFFFFFFu, 0xFFFFFFF0u, 0x0007FFFF, 0x00080000, 0x001FFFFF};
    static const uint32_t B[] = {0, 1, 3, 0x7FFFFFFE, 0x80000000u, 0xFFFFFFFFu, 0xFFFFFFFCu, 0x0007FFFE, 0x00080001, 0x001FFFFF, 0x00200000, 44};
    static const uint32_t O[] = {0, 1, 0x10, 0xF0, 0xFFFFFF00u, 0xFFFFFFF0u, 0x0007FFF0, 0x00080000, 0x001FFFF0, 0x00200000, 0x7FFFFFF0u, 0x80000000u};
    static const uint32_t P[] = {0, 1, 2, 3, 0x1FFFFC, 0x1FFFFF, 0x0FFFFE, 4097};
    for (uint32_t pc : P) for (uint32_t a : A) for (uint32_t b : B) for (uint32_t o2 : O) {
      Tp t; t.pc = pc; t.a = a; t.b = b; t.o = o2; t.clocks = 1; t.readval = (a ^ b) & 0xFF; t.pulse = false;
      unsigned lane = pc & 3;
      t.mval = (0x30303030u & ~(0xFFu << (lane * 8))) | ((uint32_t)inst << (lane * 8));
      out.push_back(t);
    }
    return out;
  }
  static Json tpToJson(const Tp &t) {
    Json j = Json::object();
    j["op"] = "tp"; j["pc"] = t.pc; j["areg"] = t.a; j["breg"] = t.b; j["oreg"] = t.o; j["mval"] = t.mval;
    j["clocks"] = t.clocks; j["readval"] = t.readval; j["pulse"] = t.pulse;
    return j;
  }

  Outcome runFree(const Json &plan, const PlanView &v) {
    Outcome o;
    sim::g_log.reset(sim::g_log.keep);
    std::vector<Tp> tps;
    bool undef = true;
    for (auto &op : plan.at("ops").a) {
      std::string k = op.getStr("op");
      if (k == "free") {
        undef = op.getBool("undef", true);
        std::vector<Tp> e = expandFree(op.getU64("seed"), 1 + op.getU64("period") % 8, v.maxSteps);
        tps.insert(tps.end(), e.begin(), e.end());
      } else if (k == "tp") {
        Tp t;
        t.pc = (uint32_t)op.getU64("pc"); t.a = (uint32_t)op.getU64("areg"); t.b = (uint32_t)op.getU64("breg"); t.o = (uint32_t)op.getU64("oreg");
        t.mval = (uint32_t)op.getU64("mval"); t.clocks = 1 + (unsigned)((op.getU64("clocks") + 7) % 8); t.readval = (uint32_t)op.getU64("readval") & 0xFF; t.pulse = op.getBool("pulse");
        tps.push_back(t);
      } else if (k == "free_cfg") undef = op.getBool("undef", true);
      else if (k == "gridfree") {
        std::vector<Tp> g = gridFreeSteps((uint8_t)op.getU64("inst"));
        tps.insert(tps.end(), g.begin(), g.end());
      }
    }
    Rtl<Vsv> &a = *g_sv; Rtl<Vv> &b = *g_v; Rtl<Vsy> &c = *g_sy;
    // Same memory in all replicas; different register garbage, then reset.
    fillGarbage(a.mem(), RTLW, sim::mix64(v.poweron, 5));
    if (!undef) {
      // Bias the first 4096 words toward defined opcodes.
      for (uint32_t k = 0; k < 4096; k++) { uint32_t w = a.mem()[k]; for (int q = 0; q < 4; q++) if (((w >> (8 * q + 4)) & 15) == 0xC) w ^= 0x10u << (8 * q); a.mem()[k] = w; }
    }
    {
      uint64_t s = sim::mix64(v.poweron, 9);
      auto g = [&]() { return (uint32_t)sim::splitmix64(s); };
      a.setRegs(g(), g(), g(), g()); b.setRegs(g(), g(), g(), g()); c.setRegs(g(), g(), g(), g());
    }
    a.rst(true); b.rst(true); c.rst(true);
    compareReplicas(o, 0, "reset asserted, before any clock edge");
    a.edge(); b.edge(); c.edge();
    std::memcpy(b.mem(), a.mem(), (size_t)RTLW * 4);
    std::memcpy(c.mem(), a.mem(), (size_t)RTLW * 4);
    a.rst(false); b.rst(false); c.rst(false);
    a.settle(); b.settle(); c.settle();
    compareReplicas(o, 0, "after reset");
    std::set<uint32_t> seenOps;
    uint64_t clk = 0;
    for (size_t ti = 0; ti < tps.size() && !o.violated; ti++) {
      const Tp &t = tps[ti];
      uint32_t maddr = (t.pc & 0x1FFFFF) >> 2;
      a.setRegs(t.pc, t.a, t.b, t.o); b.setRegs(t.pc, t.a, t.b, t.o); c.setRegs(t.pc, t.a, t.b, t.o);
      a.mem()[maddr] = t.mval; b.mem()[maddr] = t.mval; c.mem()[maddr] = t.mval;
      a.settle(); b.settle(); c.settle();
      o.count("fault.teleport_fired");
      for (unsigned q = 0; q < t.clocks && !o.violated; q++, clk++) {
        uint8_t inst = (uint8_t)(a.mem()[(a.pc() >> 2) & (RTLW - 1)] >> ((a.pc() & 3) * 8));
        if (seenOps.insert(inst | ((a.oreg() ? 1u : 0u) << 8) | ((a.areg() == 0 ? 0u : (int32_t)a.areg() < 0 ? 1u : 2u) << 9)).second) {
          char kb[48]; std::snprintf(kb, sizeof kb, "free inst=%02x oreg%s a=%s", inst, a.oreg() ? "!=0" : "=0", aClass(a.areg()));
          o.stateKeys.push_back(kb);
        }
        compareOutputs(o, clk);
        if (o.violated) break;
        bool we = a.dValid() && a.dWe();
        uint32_t waddr = a.dAddr();
        bool sys = a.sysValid();
        uint32_t sp = a.mem()[1];
        a.edge(); b.edge(); c.edge();
        if (sys) {
          // READ-like perturbation by the environment: the same word written into every replica.
          uint32_t at = (sp + 1) & (RTLW - 1);
          a.mem()[at] = t.readval; b.mem()[at] = t.readval; c.mem()[at] = t.readval;
          a.settle(); b.settle(); c.settle();
          o.count("probe.syscall_seen");
        }
        compareReplicas(o, clk, "after edge");
        if (o.violated) break;
        if (we && (a.mem()[waddr] != b.mem()[waddr] || a.mem()[waddr] != c.mem()[waddr])) { o.violate("state_diverged", "stored word differs between replicas at clock " + std::to_string(clk), "state_diverged:replica_store"); break; }
        sim::g_log.state(((uint64_t)a.pc() << 32) | a.areg(), ((uint64_t)a.breg() << 32) | a.oreg());
      }
      if (t.pulse && !o.violated) {
        // Reset pulse at an arbitrary edge.
        if (t.readval & 2) {
          // Under reset the processor sits at address 0: put this step's instruction byte there, so that
          // the outputs under reset are compared for every kind of byte (an SVC above all).
          uint32_t w0 = (a.mem()[0] & ~0xFFu) | ((t.mval >> ((t.pc & 3) * 8)) & 0xFF);
          a.mem()[0] = w0; b.mem()[0] = w0; c.mem()[0] = w0;
        }
        a.rst(true); b.rst(true); c.rst(true);
        compareReplicas(o, clk, "reset pulse asserted, before any clock edge");
        if (!o.violated) compareOutputs(o, clk);          // the outputs are part of "the same outputs for every input and state", reset included
        if ((t.readval & 1) == 0) { a.edge(); b.edge(); c.edge(); }      // otherwise the pulse falls between two edges
        a.rst(false); b.rst(false); c.rst(false);
        a.settle(); b.settle(); c.settle();
        compareReplicas(o, clk, "after reset pulse");
        o.count("fault.reset_pulse_fired");
      }
    }
    if (!o.violated && (std::memcmp(b.mem(), a.mem(), (size_t)RTLW * 4) || std::memcmp(c.mem(), a.mem(), (size_t)RTLW * 4))) o.violate("state_diverged", "replica memories differ at the end", "state_diverged:replica_memory");
    o.nontrivial = true;
    o.note = "completed:free";
    o.simCycles = clk;
    o.hash = sim::g_log.hashHex();
    return o;
  }
};

} // namespace

int main(int argc, char **argv) {
  Lockstep h;
  return sim::driverMain(argc, argv, h);
}
