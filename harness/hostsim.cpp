// hostsim: the tools executed under a simulated host state (heap contents and placement, stack
// contents and depth, environment, what ran earlier in the same process).
//   C12  a hexsim run depends only on binary, input and options
//   C11  compilation and assembly are deterministic functions of the source
#include "sim/driver.hpp"
#include "model/hexref.hpp"
#include "gen/imggen.hpp"
#include "gen/xgen.hpp"
#include "gen/mutate.hpp"

#include "hexasm.hpp"
#include "xcmp.hpp"
#include "hexsim.hpp"

#include <cerrno>
#include <dirent.h>

int hexsim_main(int argc, const char **argv);
int hexasm_main(int argc, const char **argv);
int xcmp_main(int argc, const char **argv);
int xrun_main(int argc, char **argv);

using sim::Json;
using sim::Outcome;
using sim::Rng;

namespace {

const uint32_t W = hexref::W_HEXSIM;
std::string hx(uint32_t v) { char b[16]; std::snprintf(b, sizeof b, "%08x", v); return b; }
std::string clip(const std::string &s, size_t n = 60) {
  std::string r;
  for (unsigned char c : s.substr(0, n)) r += (c >= 0x20 && c < 0x7f) ? (char)c : '.';
  if (s.size() > n) r += "..";
  return r;
}

//---------------------------------------------------------------------------------------------
// Workload pools.
//---------------------------------------------------------------------------------------------
struct CorpusEntry { std::string name, kind, file, image, source; std::vector<std::string> inputs; };
std::vector<CorpusEntry> g_corpus;
struct Src { std::string name, text; bool isX; };
std::vector<Src> g_sources;

void loadPools() {
  if (const char *p = getenv("VERIF_CORPUS")) {
    std::string text = sim::readFile(p);
    if (!text.empty()) {
      Json j = Json::parse(text);
      for (auto &e : j.a) {
        CorpusEntry c;
        c.name = e.getStr("name"); c.kind = e.getStr("kind");
        c.file = sim::fromHex(e.getStr("file_hex"));
        c.image = sim::fromHex(e.getStr("image_hex"));
        c.source = e.getStr("source");
        if (auto *in = e.find("inputs")) for (auto &i : in->a) c.inputs.push_back(sim::fromHex(i.s));
        if (!c.file.empty()) g_corpus.push_back(c);
      }
    }
  }
  const char *dirEnv = getenv("VERIF_CORPUS_DIR");
  std::string dir = dirEnv && *dirEnv ? dirEnv : "/verif/corpus";
  auto addDir = [&](const std::string &sub, const std::string &ext, bool isX) {
    DIR *d = opendir((dir + "/" + sub).c_str());
    if (!d) return;
    std::vector<std::string> names;
    while (dirent *e = readdir(d)) { std::string n = e->d_name; if (n.size() > ext.size() && n.compare(n.size() - ext.size(), ext.size(), ext) == 0) names.push_back(n); }
    closedir(d);
    std::sort(names.begin(), names.end());
    for (auto &n : names) g_sources.push_back({sub + "/" + n, sim::readFile(dir + "/" + sub + "/" + n), isX});
  };
  addDir("x", ".x", true);
  addDir("asm", ".S", false);
  std::string t = sim::readFile(dir + "/x_features.json");
  if (!t.empty()) for (auto &p : Json::parse(t).a) g_sources.push_back({p.getStr("name"), p.getStr("source"), true});
}
const CorpusEntry *corpusByName(const std::string &n) { for (auto &c : g_corpus) if (c.name == n) return &c; return nullptr; }
const Src *sourceByName(const std::string &n) { for (auto &s : g_sources) if (s.name == n) return &s; return nullptr; }

//---------------------------------------------------------------------------------------------
// Host state of one operation.
//---------------------------------------------------------------------------------------------
struct Host {
  int heapMode = sim::heap::ZERO; uint64_t heapSeed = 0, padSeed = 0; unsigned padMax = 0, baseShift = 0; bool shuffle = false, scribble = false;
  int stackMode = sim::STACK_ZERO; size_t stackBytes = 1400000; uint64_t stackSeed = 0; size_t shift = 0;
  int arenaMode = 0; uint64_t arenaSeed = 0;     // C12 library level: backing store of the Processor (0 zero, 1 ones, 2 prng, 3 pointerish, 4 stale)
  unsigned envPad = 0; std::string lang;
  int err = 0;                                   // errno left behind by whatever ran before
  uint64_t clock = 0; int pid = 0;               // what the clock and getpid() say (0: the pristine 1000000000 / 4242)
  bool carry = false;                            // C11: the allocator continues from what the previous step of the history left (heap end, freed blocks)
  unsigned preOut = 0;                           // C11: the output path already holds a file (odd: what the previous step left there; else junk of preOut % 6000 + 1 bytes)
  bool pristine() const { return heapMode == sim::heap::ZERO && stackMode == sim::STACK_ZERO && arenaMode == 0 && !padSeed && !scribble && !baseShift && !shift && !envPad && lang.empty() && !err && !clock && !pid && !preOut && !carry; }
  std::string str() const {
    return std::string("heap=") + sim::heap::modeName(heapMode) + (padSeed ? "+pad" : "") + (shuffle ? "+shuffle" : "") + (scribble ? "+scribble" : "") + (baseShift ? "+shift" : "") +
           " stack=" + std::to_string(stackMode) + (shift ? "+shift" : "") + " arena=" + std::to_string(arenaMode) + (envPad ? " env" : "") + (err ? " errno=" + std::to_string(err) : "") + (clock ? " clock" : "") + (preOut ? " preout" : "") + (carry ? " carry" : "");
  }
};
Host hostFrom(const Json &op) {
  Host h;
  h.heapMode = sim::heap::modeFromName(op.getStr("heap", "zero"));
  if (h.heapMode == sim::heap::PASSTHROUGH) h.heapMode = sim::heap::ZERO;
  h.heapSeed = op.getU64("heap_seed"); h.padSeed = op.getU64("pad_seed"); h.padMax = (unsigned)(op.getU64("pad_max") % 64);
  h.baseShift = (unsigned)(op.getU64("base_shift") % 4096); h.shuffle = op.getBool("shuffle"); h.scribble = op.getBool("scribble");
  // The stack below the code under test is always written by the simulator (never left as the
  // harness happened to leave it): mode 0 means zero, and the filled region always covers the frames
  // the tools use (hexsim keeps its 800 kB Processor on main's stack).
  { uint64_t x = op.getU64("stack"); h.stackMode = x == 0 ? (int)sim::STACK_ZERO : 1 + (int)((x - 1) % (sim::STACK_NUM_MODES - 1)); }
  h.stackBytes = (size_t)(1400000 + op.getU64("stack_bytes", 0) % (1u << 20));
  h.stackSeed = op.getU64("stack_seed"); h.shift = (size_t)(op.getU64("shift") % 8192);
  h.arenaMode = (int)(op.getU64("arena") % 5); h.arenaSeed = op.getU64("arena_seed");
  h.envPad = (unsigned)(op.getU64("env_pad") % 4096); h.lang = op.getStr("lang");
  h.err = (int)(op.getU64("errno") % 134);
  h.clock = op.getU64("clock"); h.pid = (int)(op.getU64("pid") % 4000000);
  h.preOut = (unsigned)(op.getU64("pre_out") % (1u << 24));
  h.carry = op.getBool("carry");
  return h;
}
Json hostToJson(Json op, const Host &h) {
  op["heap"] = sim::heap::modeName(h.heapMode); op["heap_seed"] = (unsigned long long)h.heapSeed;
  if (h.padSeed) { op["pad_seed"] = (unsigned long long)h.padSeed; op["pad_max"] = h.padMax; }
  if (h.baseShift) op["base_shift"] = h.baseShift;
  if (h.shuffle) op["shuffle"] = true;
  if (h.scribble) op["scribble"] = true;
  op["stack"] = h.stackMode; op["stack_bytes"] = (unsigned long long)(h.stackBytes >= 1400000 ? h.stackBytes - 1400000 : h.stackBytes); op["stack_seed"] = (unsigned long long)h.stackSeed;
  if (h.shift) op["shift"] = (unsigned long long)h.shift;
  if (h.arenaMode) { op["arena"] = h.arenaMode; op["arena_seed"] = (unsigned long long)h.arenaSeed; }
  if (h.envPad) op["env_pad"] = h.envPad;
  if (!h.lang.empty()) op["lang"] = h.lang;
  if (h.err) op["errno"] = h.err;
  if (h.clock) op["clock"] = (unsigned long long)h.clock;
  if (h.pid) op["pid"] = h.pid;
  if (h.preOut) op["pre_out"] = h.preOut;
  if (h.carry) op["carry"] = true;
  return op;
}
Host randomHost(Rng &r, bool c12) {
  Host h;
  static const int hm[] = {sim::heap::ZERO, sim::heap::ONES, sim::heap::PRNG, sim::heap::PRNG, sim::heap::POINTERISH, sim::heap::STALE};
  h.heapMode = hm[r.below(6)]; h.heapSeed = r.next() >> 16;
  if (r.chance(1, 2)) { h.padSeed = 1 + (r.next() >> 16); h.padMax = 1 + (unsigned)r.below(32); }
  if (r.chance(1, 3)) h.baseShift = (unsigned)r.below(4096);
  h.shuffle = r.chance(1, 3);
  h.scribble = r.chance(1, 2);
  h.stackMode = 1 + (int)r.below(sim::STACK_NUM_MODES - 1);
  h.stackBytes = (size_t)r.below(1u << 20);
  h.stackSeed = r.next() >> 16;
  if (r.chance(1, 2)) h.shift = (size_t)r.below(8192);
  if (c12) { h.arenaMode = (int)r.below(5); h.arenaSeed = r.next() >> 16; }
  if (r.chance(1, 4)) h.envPad = 1 + (unsigned)r.below(4000);
  if (r.chance(1, 4)) { static const char *l[] = {"C", "POSIX", "en_US.UTF-8", "tr_TR.UTF-8", "de_DE"}; h.lang = l[r.below(5)]; }
  if (r.chance(1, 3)) { static const int e[] = {ERANGE, EINTR, ENOENT, EAGAIN, EINVAL, ENOMEM}; h.err = e[r.below(6)]; }
  if (r.chance(1, 2)) { h.clock = 946684800 + r.below(2000000000); h.pid = 2 + (int)r.below(300000); }
  if (!c12 && r.chance(1, 3)) h.preOut = 1 + (unsigned)r.below((1u << 24) - 1);
  if (!c12 && r.chance(1, 3)) h.carry = true;
  return h;
}
void applyEnv(const Host &h) {
  if (h.envPad) setenv("VERIF_PADDING", std::string(h.envPad, 'x').c_str(), 1); else unsetenv("VERIF_PADDING");
  if (!h.lang.empty()) { setenv("LANG", h.lang.c_str(), 1); setenv("LC_ALL", h.lang.c_str(), 1); } else { unsetenv("LANG"); unsetenv("LC_ALL"); }
  setenv("MALLOC_PERTURB_", std::to_string(h.heapSeed & 255).c_str(), 1);
}
sim::heap::Config heapCfg(const Host &h) {
  sim::heap::Config c;
  c.mode = h.heapMode; c.fillSeed = h.heapSeed; c.padSeed = h.padSeed; c.padMax = h.padMax; c.baseShift = h.baseShift; c.shuffleRecycle = h.shuffle; c.scribbleFree = h.scribble;
  return c;
}

// Runs f as the code under test: simulated heap and stack.  The 90 s alarm only stops a genuinely hung
// tool; wall-clock time never decides a verdict (a watchdog hit is 'skipped', see hung()).
const sim::heap::Carry *g_carryIn = nullptr;      // set by C11 around a step whose host continues the previous step's heap
sim::Trapped underHost(const Host &h, const std::function<int()> &f) {
  applyEnv(h);
  sim::Trapped t;
  sim::simclock::activate(h.clock ? h.clock : 1000000000ull, h.pid ? h.pid : 4242);
  sim::heap::begin(heapCfg(h), h.carry ? g_carryIn : nullptr);
  sim::callOnDirtyStack(h.stackMode, h.stackBytes, h.stackSeed, h.shift, [&]() { t = sim::runTrapped([&]() { errno = h.err; return f(); }, 90); });
  sim::heap::end();
  sim::simclock::deactivate();
  return t;
}

bool hung(const sim::Trapped &t) { return t.kind == sim::Trapped::CRASHED && t.signal == SIGALRM; }

//---------------------------------------------------------------------------------------------
// C12
//---------------------------------------------------------------------------------------------
alignas(64) char g_procBuf[sizeof(hexsim::Processor)];
alignas(64) char g_staleBuf[sizeof(hexsim::Processor)];   // what a previous Processor left behind
bool g_staleValid = false;

struct Sys { uint32_t no, a1, a2, a3; bool operator==(const Sys &o) const { return no == o.no && a1 == o.a1 && a2 == o.a2 && a3 == o.a3; } };
struct RunRes {
  sim::Trapped t;
  std::string out; size_t consumed = 0;
  std::map<std::string, std::string> files;
  std::vector<Sys> syscalls;
  uint64_t steps = 0;
  bool stoppedByObserver = false;
};

struct ObsCtx { uint64_t stopAfter = 0; uint64_t steps = 0; std::vector<Sys> *sys = nullptr; bool stopped = false; uint32_t prevSp = 0; uint8_t nextInst = 0; };
bool observe(void *c, hexsim::Processor &p) {
  ObsCtx &o = *(ObsCtx *)c;
  o.steps++;
  // The instruction just executed is the byte that stood at the pc before it ran (nextInst, sampled
  // at the end of the previous call: a store may have replaced it since).  Record system calls with
  // the argument slots addressed by the stack pointer the call was made with.
  uint32_t *m = p.verifMemory();
  if (o.nextInst == 0xD3 && o.sys) {
    sim::HarnessScope hs;
    uint32_t sp = o.prevSp;
    auto rd = [&](uint32_t a) { return a < W ? m[a] : 0u; };
    o.sys->push_back({p.verifAreg(), rd(sp + 1), rd(sp + 2), rd(sp + 3)});
  }
  uint32_t pc = p.verifPC();
  o.nextInst = (pc >> 2) < W ? (uint8_t)(m[pc >> 2] >> ((pc & 3) * 8)) : 0;
  o.prevSp = m[1];
  if (o.stopAfter && o.steps >= o.stopAfter) { o.stopped = true; return false; }
  return true;
}

struct C12View {
  std::string image, file, input, progName;
  unsigned tailCut = 0;
  bool trace = false; uint64_t maxCycles = 0; bool hasMax = false; bool dump = false;
  std::vector<Host> hosts; std::vector<int> toolLevel;   // 0 library, 1 hexsim main, 2 xrun main
  std::string xsource;
  std::string simin[8]; bool siminPresent[8] = {};
  uint64_t budget = 20000;
  bool hasSymbols = false;
  uint64_t cycleBase = 0;      // unlimited runs start with the simulator's cycle counter here (hook H1)
};

class HostSim : public sim::Harness {
public:
  const char *name() const override { return "hostsim"; }
  sim::StdStreams ss;
  hexref::Machine *ref = nullptr;
  std::vector<uint32_t> dirty;

  bool crashProne() override { return property == "C11"; }

  void workerInit() override {
    if (ref) return;
    loadPools();
    ref = new hexref::Machine(W);
    ref->enableWrittenTracking();
  }

  Json describe() override {
    Json d = Json::object();
    Json real = Json::array(), stub = Json::array();
    if (property == "C12") {
      real.push("hexsim.hpp Processor constructor/load/run/trace (working tree, -DHEX_VERIF) placed on a simulator-filled backing store");
      real.push("hexsim.cpp main and xrun.cpp main on a private fixed-address stack (planned fill and entry shift, ASLR off); libstdc++ streams");
      stub.push("backing store of the Processor, stack contents and depth, operator new contents and placement, environment");
      stub.push("stdin/stdout (byte-granular), files (memfd table)");
      d["oracle"] = "hexref with zero-initialised memory; self-consistency across host states for cut runs; system-call sequence (H1) for trace on vs off";
    } else {
      real.push("xcmp.cpp main / xcmp::Driver (all emit actions), hexasm.cpp main (working tree)"); real.push("libstdc++ streams, boost::format");
      stub.push("operator new: fill (zero/ones/prng/pointer-like/stale), overwrite on free, padding, recycling order, base shift; stack contents and depth (private fixed-address stack); environment, errno, clock, pid; compilation history inside the process");
      stub.push("stdin/stdout/stderr, files (memfd table)");
      d["oracle"] = "the same tool on the same source in the pristine host state (zero heap, zero stack): status, diagnostics, listings and every emitted file byte-identical";
    }
    d["real"] = real; d["stubbed"] = stub;
    d["arena_heap_available"] = sim::heap::available();
    d["corpus_programs"] = (unsigned long long)g_corpus.size();
    d["source_pool"] = (unsigned long long)g_sources.size();
    return d;
  }

  //===========================================================================================
  // Plans
  //===========================================================================================
  Json generate(uint64_t runSeed, uint64_t index) override {
    Rng r(runSeed);
    return property == "C12" ? genC12(r, index) : genC11(r, index);
  }

  // Images that read words they never wrote.
  std::string unwrittenTemplate(Rng &r) {
    // BR 8; sp; then: sum of an unwritten array / branch on an unwritten flag / print an unwritten byte; exit.
    std::string s;
    auto b = [&](unsigned op, unsigned v) { s.push_back((char)((op << 4) | (v & 15))); };
    auto emit = [&](unsigned op, uint32_t v) {
      std::vector<unsigned> nib; uint32_t rest = v >> 4;
      while (rest) { nib.insert(nib.begin(), rest & 15); rest >>= 4; }
      for (unsigned n : nib) b(0xE, n);
      b(op, v & 15);
    };
    uint32_t sp = 150000 + (uint32_t)r.below(40000);
    b(0x9, 7); s += std::string(3, '\0');
    for (int k = 0; k < 4; k++) s.push_back((char)(sp >> (8 * k)));
    uint32_t base = 1000 + (uint32_t)r.below(190000);
    switch (r.below(4)) {
      case 0:   // exit(mem[base] + mem[base+1] + ...)
        emit(0x0, base);
        for (int k = 1; k < 1 + (int)r.below(5); k++) { emit(0x1, base + (uint32_t)k); b(0xD, 1); }
        break;
      case 1:   // branch on an unwritten flag
        emit(0x0, base); b(0xA, 2); emit(0x3, 7); b(0x9, 1); emit(0x3, 9);
        // (both arms are two bytes: LDAC 7 ; BR +1 | LDAC 9 is one byte - good enough as workload)
        break;
      case 2:   // print an unwritten byte, then exit 0
        emit(0x0, base); emit(0x1, 1); emit(0x8, 2); emit(0x3, 0); emit(0x8, 3); emit(0x3, 1); b(0xD, 3); emit(0x3, 0);
        break;
      default:  // indexed read through an unwritten pointer's neighbour
        emit(0x3, base); emit(0x6, (uint32_t)r.below(8));
        break;
    }
    emit(0x1, 1); emit(0x8, 2); emit(0x3, 0); b(0xD, 3);
    while (s.size() % 4) s.push_back('\0');
    return s;
  }

  Json genC12(Rng &r, uint64_t) {
    Json plan = Json::object(), cfg = Json::object(), ops = Json::array();
    cfg["mode"] = "c12";
    cfg["max_steps"] = (unsigned long long)(r.chance(1, 8) ? 120000 : tier == "thorough" ? 60000 : 20000);    // one plan in eight passes 65 536 instructions
    const CorpusEntry *ce = nullptr;
    {
      Json op = Json::object(); op["op"] = "image";
      unsigned k = (unsigned)r.below(10);
      if (k < 3 && !g_corpus.empty()) {
        ce = &g_corpus[r.below(g_corpus.size())];
        for (int t = 0; ce->file.size() > 20000 && t < 3; t++) ce = &g_corpus[r.below(g_corpus.size())];
        op["corpus"] = ce->name;
      } else if (k < 6) op["hex"] = sim::toHex(unwrittenTemplate(r));
      else { gen::ImgCfg ic; ic.maxWords = 96; ic.undefPerMille = 25; ic.spIntoCodePerMille = 150; Rng ir = r.fork(3); op["hex"] = sim::toHex(gen::makeImage(ir, ic)); }   // more undefined bytes and call numbers than elsewhere: hexsim's error path is part of C12
      if (!op.has("corpus") && r.chance(1, 4)) op["tail_cut"] = (unsigned long long)(1 + r.below(3));
      else if (!op.has("corpus") && r.chance(1, 2)) {
        // A symbol table behind the image, as the assembler writes for PROC/FUNC: the trace labels
        // every instruction with the enclosing symbol, also when execution has left the image.
        Json syms = Json::array();
        unsigned ns = 1 + (unsigned)r.below(3), at = 0;
        for (unsigned q = 0; q < ns; q++) {
          Json e = Json::array();
          std::string name = "s" + std::to_string(q);
          if (r.chance(1, 5)) name += "_" + std::string(20 + r.below(60), (char)('a' + r.below(26)));
          e.push(name); e.push((unsigned long long)at);
          syms.push(e);
          at += (unsigned)r.below(64);
        }
        op["symbols"] = syms;
      }
      ops.push(op);
    }
    {
      std::string in;
      if (ce && !ce->inputs.empty() && r.chance(2, 3)) in = ce->inputs[r.below(ce->inputs.size())];
      else { size_t n = (size_t)r.below(8); if (r.chance(1, 40)) n = (r.chance(1, 2) ? 4094 : 8190) + (size_t)r.below(5);     // around a 4096-byte buffer boundary
             for (size_t q = 0; q < n; q++) in.push_back((char)(n > 100 ? 32 + r.below(95) : r.below(256))); }
      if (r.chance(1, 3) && !in.empty()) in.resize((size_t)r.below(in.size()));
      Json op = Json::object(); op["op"] = "input"; op["hex"] = sim::toHex(in); ops.push(op);
    }
    if (ce && (ce->kind == "xgen" || ce->kind == "asmgen" || r.chance(1, 4))) {
      static const unsigned idx[] = {1, 2, 5, 0, 7};
      for (unsigned q = 0; q < 5; q++) {
        if (r.chance(1, 10)) continue;
        Json op = Json::object(); op["op"] = "simin"; op["idx"] = idx[q];
        std::string d; size_t n = (size_t)r.below(6); for (size_t z = 0; z < n; z++) d.push_back((char)r.below(256));
        op["hex"] = sim::toHex(d);
        ops.push(op);
      }
    }
    {
      Json op = Json::object(); op["op"] = "options";
      op["trace"] = r.chance(1, 3);
      if (r.chance(1, 6)) op["dump"] = true;
      if (r.chance(1, 5)) { static const unsigned bits[] = {8, 15, 16, 24, 31, 32, 32, 33, 48, 62}; op["cycle_base"] = (unsigned long long)((1ull << bits[r.below(10)]) - r.below(40)); }   // simulated time starts just below a power of two
      if (r.chance(1, 2)) op["max_cycles"] = (unsigned long long)(r.chance(1, 3) ? r.below(4) : r.below(400));   // resolved against the run length at execution
      ops.push(op);
    }
    unsigned nh = 1 + (unsigned)r.below(3);
    for (unsigned k = 0; k < nh; k++) {
      Json op = Json::object(); op["op"] = "host"; op["level"] = r.chance(2, 3) ? "lib" : (r.chance(4, 5) ? "hexsim" : "xrun");
      ops.push(hostToJson(op, randomHost(r, true)));
    }
    plan["config"] = cfg; plan["ops"] = ops;
    return plan;
  }

  Json genC11(Rng &r, uint64_t) {
    Json plan = Json::object(), cfg = Json::object(), ops = Json::array();
    cfg["mode"] = "c11";
    unsigned n = 1 + (unsigned)r.below(tier == "thorough" ? 8 : 5);
    // A few sources per plan, so that the same source shows up at several history positions.
    std::vector<Json> srcs;
    unsigned ns = 1 + (unsigned)r.below(3);
    for (unsigned k = 0; k < ns; k++) srcs.push_back(pickSource(r));
    static const char *xActions[] = {"binary", "binary", "binary", "asm", "asm", "insts", "insts_lowered", "insts_optimised", "tree", "tree_opt", "tokens", "memory_info"};
    static const char *aActions[] = {"binary", "binary", "binary", "instrs", "instrs", "tokens"};
    for (unsigned k = 0; k < n; k++) {
      Json op = srcs[r.below(srcs.size())];
      op["op"] = "step";
      bool isX = op.getStr("tool") == "xcmp";
      op["action"] = isX ? xActions[r.below(12)] : aActions[r.below(6)];
      op["via"] = isX ? (r.chance(1, 2) ? "main" : "lib") : "main";
      ops.push(hostToJson(op, randomHost(r, false)));
    }
    plan["config"] = cfg; plan["ops"] = ops;
    return plan;
  }

  Json pickSource(Rng &r) {
    Json op = Json::object();
    unsigned k = (unsigned)r.below(10);
    std::string text; bool isX = true; std::string origin;
    if (k < 3 || g_sources.empty()) {
      Rng gr = r.fork(11);
      if (r.chance(1, 4)) { if (r.chance(2, 3)) { text = gen::makeSizedAsm(gr); isX = false; origin = "sizedasm"; } else { text = gen::makeSizedX(gr); origin = "sizedx"; } }
      else if (r.chance(1, 8)) { text = gen::makeAliasAsm(gr); isX = false; origin = "aliasasm"; }
      else if (r.chance(2, 3)) { bool ex = r.chance(1, 3); text = gen::makeX(gr, ex); origin = ex ? "xgen+decls" : "xgen"; } else { text = gen::makeAsm(gr); isX = false; origin = "asmgen"; }
    } else {
      const Src *s = &g_sources[r.below(g_sources.size())];
      for (int t = 0; s->text.size() > 20000 && t < 4 && !r.chance(1, 30); t++) s = &g_sources[r.below(g_sources.size())];
      isX = s->isX; origin = s->name;
      if (s->text.size() > 20000) { op["src_ref"] = s->name; }
      else text = s->text;
    }
    if (!op.has("src_ref") && r.chance(1, 2)) {
      Rng mr = r.fork(12);
      text = gen::mutateSource(mr, text, isX, 3);
      origin += "+mut";
    }
    if (!op.has("src_ref")) op["src"] = text;
    op["tool"] = isX ? "xcmp" : "hexasm";
    op["origin"] = origin;
    return op;
  }

  Json materialise(const Json &plan) override {
    Json p = plan;
    for (auto &op : p["ops"].a) {
      if (op.getStr("op") == "image" && op.has("corpus")) {
        if (auto *c = corpusByName(op.getStr("corpus"))) { op["file_b16"] = sim::toHex(c->file); op["from_corpus"] = op.getStr("corpus"); if (c->kind == "x" || c->kind == "xgen") op["xsource"] = c->source; op.erase("corpus"); }
      }
      if (op.getStr("op") == "step" && op.has("src_ref")) {
        if (auto *s = sourceByName(op.getStr("src_ref"))) { op["src"] = s->text; op.erase("src_ref"); }
      }
    }
    return p;
  }
  bool removable(const Json &op) override { return op.getStr("op") != "image"; }

  // Source text shrinks line by line and token by token (it must keep producing the same violation).
  std::vector<Json> simplifyOp(const Json &op) override {
    std::vector<Json> out;
    if (op.getStr("op") != "step" || !op.has("src")) {
      if (op.getStr("op") == "host" || op.getStr("op") == "step") simplifyHost(op, out);
      return out;
    }
    simplifyHost(op, out);
    std::string s = op.getStr("src");
    std::vector<std::string> tok = gen::tokenize(s);
    size_t n = tok.size();
    size_t budget = 80;
    for (size_t chunk = n / 2; chunk >= 1 && budget > 0; chunk /= 2) {
      for (size_t a = 0; a < n && budget > 0; a += chunk, budget--) {
        std::string t;
        for (size_t k = 0; k < n; k++) if (k < a || k >= a + chunk) t += tok[k];
        if (t != s) { Json c = op; c["src"] = t; out.push_back(c); }
      }
      if (chunk == 1) break;
    }
    return out;
  }
  void simplifyHost(const Json &op, std::vector<Json> &out) {
    // Towards the pristine host state, one dimension at a time.
    for (const char *k : {"pad_seed", "base_shift", "shuffle", "scribble", "shift", "env_pad", "lang", "arena", "stack", "errno", "clock", "pid", "pre_out", "carry"}) {
      if (!op.has(k)) continue;
      Json c = op; c.erase(k);
      if (std::string(k) == "stack") c["stack"] = 1;
      if (c != op) out.push_back(c);
    }
    if (op.getStr("heap") != "zero" && op.getStr("heap") != "ones" && op.has("heap")) { Json c = op; c["heap"] = "ones"; out.push_back(c); }
  }

  //===========================================================================================
  Outcome execute(const Json &plan) override {
    sim::g_log.reset(sim::g_log.keep);
    Outcome o;
    if (plan.at("config").getStr("mode") == "c12") execC12(plan, o); else execC11(plan, o);
    sim::fs::reset();
    o.hash = sim::g_log.hashHex();
    return o;
  }

  //===========================================================================================
  // C12
  //===========================================================================================
  C12View viewC12(const Json &plan) {
    C12View v;
    v.budget = plan.at("config").getU64("max_steps", 20000);
    for (auto &op : plan.at("ops").a) {
      std::string k = op.getStr("op");
      if (k == "image") {
        if (op.has("file_b16")) v.file = sim::fromHex(op.getStr("file_b16"));
        else if (op.has("corpus")) { if (auto *c = corpusByName(op.getStr("corpus"))) { v.file = c->file; if (c->kind == "x" || c->kind == "xgen") v.xsource = c->source; } }
        else if (op.has("hex")) {
          std::string img = sim::fromHex(op.getStr("hex"));
          while (img.size() % 4) img.push_back('\0');
          uint32_t words = (uint32_t)(img.size() / 4);
          for (int q = 0; q < 4; q++) v.file.push_back((char)(words >> (8 * q)));
          // The file may stop 1-3 bytes inside its last word (the X-hosted compiler writes such
          // images); the missing bytes read as zero.
          unsigned cut = img.size() >= 8 ? (unsigned)(op.getU64("tail_cut") % 4) : 0;
          v.file += img.substr(0, img.size() - cut);
          v.tailCut = cut;
          if (!cut && op.has("symbols")) {
            const Json &sy = op.at("symbols");
            auto u32 = [&](uint32_t x) { for (int q = 0; q < 4; q++) v.file.push_back((char)(x >> (8 * q))); };
            u32((uint32_t)sy.a.size());
            for (auto &e : sy.a) { v.file += e.a[0].s; v.file.push_back('\0'); }
            u32((uint32_t)sy.a.size());
            for (size_t q = 0; q < sy.a.size(); q++) { u32((uint32_t)q); u32((uint32_t)sy.a[q].a[1].i); }
            v.hasSymbols = true;
          }
        }
        if (op.has("xsource")) v.xsource = op.getStr("xsource");
        v.progName = op.getStr("corpus", op.getStr("from_corpus", "generated"));
      } else if (k == "input") v.input = sim::fromHex(op.getStr("hex"));
      else if (k == "options") { v.trace = op.getBool("trace"); v.dump = op.getBool("dump"); if (op.has("max_cycles")) { v.hasMax = true; v.maxCycles = op.getU64("max_cycles"); } v.cycleBase = op.getU64("cycle_base"); }
      else if (k == "host") { v.hosts.push_back(hostFrom(op)); std::string l = op.getStr("level", "lib"); v.toolLevel.push_back(l == "lib" ? 0 : l == "xrun" ? 2 : 1); }
      else if (k == "simin") { unsigned i = (unsigned)(op.getU64("idx") & 7); v.siminPresent[i] = true; v.simin[i] = sim::fromHex(op.getStr("hex")); }
    }
    if (v.file.size() >= 4) {
      uint32_t words = 0; std::memcpy(&words, v.file.data(), 4);
      size_t bytes = (size_t)words * 4;
      v.image = 4 + bytes <= v.file.size() ? v.file.substr(4, bytes) : v.file.substr(4);
      while (v.image.size() < bytes && v.image.size() < 800000) v.image.push_back('\0');     // bytes the file does not have are zero
    }
    return v;
  }

  void stage(const C12View &v) {
    sim::fs::reset();
    sim::fs::put("img.bin", v.file);
    for (int k = 0; k < 8; k++) if (v.siminPresent[k]) sim::fs::put("simin" + std::to_string(k), v.simin[k]);
  }
  void collectFiles(RunRes &r) {
    for (int k = 0; k < 8; k++) { std::string n = "simout" + std::to_string(k); if (sim::fs::exists(n)) r.files[n] = sim::fs::get(n); }
  }

  // Library level: the Processor is constructed on a backing store the simulator filled.
  RunRes runLib(const C12View &v, const Host &h, bool trace, uint64_t maxCycles, uint64_t stopAfter) {
    RunRes res;
    stage(v);
    // Backing store.
    uint32_t *buf = (uint32_t *)g_procBuf;
    size_t words = sizeof g_procBuf / 4;
    uint64_t s = h.arenaSeed;
    switch (h.arenaMode) {
      case 0: std::memset(g_procBuf, 0, sizeof g_procBuf); break;
      case 1: std::memset(g_procBuf, 0xFF, sizeof g_procBuf); break;
      case 3: for (size_t k = 0; k + 1 < words; k += 2) { uint64_t x = 0x6f0000000000ull + (sim::splitmix64(s) & 0xFFFFFF8ull); buf[k] = (uint32_t)x; buf[k + 1] = (uint32_t)(x >> 32); } break;
      case 4: if (g_staleValid) { std::memcpy(g_procBuf, g_staleBuf, sizeof g_procBuf); break; }   // else fall through to prng
      // fallthrough
      default: for (size_t k = 0; k + 1 < words; k += 2) { uint64_t x = sim::splitmix64(s); buf[k] = (uint32_t)x; buf[k + 1] = (uint32_t)(x >> 32); }
    }
    sim::SimInBuf inb(0); sim::SimOutBuf outb(1, 1 << 22);
    inb.load(v.input);
    std::istream ins(&inb); std::ostream outs(&outb);
    ObsCtx oc; oc.stopAfter = stopAfter; oc.sys = &res.syscalls;
    hexsim::Processor *p = nullptr;
    hexsim::Processor::verifCycleBase() = maxCycles ? 0 : (size_t)v.cycleBase;     // a cycle limit is tied to the count: only unlimited runs are shifted
    res.t = underHost(h, [&]() -> int {
      p = new (g_procBuf) hexsim::Processor(ins, outs, (size_t)maxCycles);
      p->verifObserver = observe; p->verifCtx = &oc;
      p->setTracing(trace);
      p->load("img.bin");
      oc.prevSp = p->verifMemory()[1];
      oc.nextInst = (uint8_t)p->verifMemory()[0];
      return p->run();
    });
    hexsim::Processor::verifCycleBase() = 0;
    res.steps = oc.steps;
    res.stoppedByObserver = oc.stopped;
    res.out = outb.data; res.consumed = inb.consumed();
    if (p && res.t.kind != sim::Trapped::CRASHED) p->~Processor();
    std::memcpy(g_staleBuf, g_procBuf, sizeof g_procBuf); g_staleValid = true;
    collectFiles(res);
    return res;
  }

  // Tool level: hexsim's (or xrun's) own main on a dirtied stack.
  RunRes runTool(const C12View &v, const Host &h, bool trace, uint64_t maxCycles, bool viaXrun, const std::string &xsrc, bool dump = false) {
    RunRes res;
    stage(v);
    if (viaXrun) sim::fs::put("prog.x", xsrc);
    ss.attach(v.input);
    std::vector<std::string> argv;
    if (viaXrun) argv = {"xrun", "prog.x"}; else argv = {"hexsim", "img.bin"};
    if (trace) argv.push_back("-t");
    if (dump) argv.push_back("--dump");
    if (maxCycles) { argv.push_back("--max-cycles"); argv.push_back(std::to_string(maxCycles)); }
    std::vector<const char *> av;
    for (auto &a : argv) av.push_back(a.c_str());
    av.push_back(nullptr);
    int argc = (int)argv.size();
    hexsim::Processor::verifCycleBase() = maxCycles ? 0 : (size_t)v.cycleBase;
    res.t = underHost(h, [&]() -> int { return viaXrun ? xrun_main(argc, (char **)av.data()) : hexsim_main(argc, av.data()); });
    hexsim::Processor::verifCycleBase() = 0;
    res.out = ss.out.data; res.consumed = ss.in.consumed();
    ss.detach();
    collectFiles(res);
    return res;
  }

  static std::string cmpRuns(const RunRes &a, const RunRes &b, bool withStdout, bool withStatus) {
    if (a.t.kind != b.t.kind) return "ended " + a.t.str() + " vs " + b.t.str();
    if (a.t.kind == sim::Trapped::THREW && a.t.what != b.t.what) return "exception '" + a.t.what + "' vs '" + b.t.what + "'";
    if (withStatus && a.t.status != b.t.status) return "status " + std::to_string(a.t.status) + " vs " + std::to_string(b.t.status);
    if (withStdout && a.out != b.out) return "stdout '" + clip(a.out, 24) + "' (" + std::to_string(a.out.size()) + " bytes) vs '" + clip(b.out, 24) + "' (" + std::to_string(b.out.size()) + " bytes)";
    if (a.consumed != b.consumed) return "stdin consumed " + std::to_string(a.consumed) + " vs " + std::to_string(b.consumed);
    if (a.files != b.files) return "simout files differ";
    return "";
  }

  void execC12(const Json &plan, Outcome &o) {
    C12View v = viewC12(plan);
    if (v.file.size() < 8) { o.note = "skipped:no_image"; return; }
    // Expected history: hexref, memory outside the image reads as zero.
    hexref::Machine &m = *ref;
    hexref::Io rio; rio.input = v.input; rio.keepHistory = false;
    for (int k = 0; k < 8; k++) if (v.siminPresent[k]) { rio.fileExists[k] = true; rio.fileIn[k] = v.simin[k]; }
    for (uint32_t a : dirty) if (a < W) { m.mem[a] = 0; m.written[a] = 0; }
    dirty.clear();
    m.reset(); m.io = &rio;
    m.loadImage(v.image);
    for (uint32_t a = 0; a < (v.image.size() + 3) / 4 && a < W; a++) dirty.push_back(a);
    uint64_t steps = 0; bool exited = false; std::string cut;
    bool readUnwritten = false;
    std::vector<Sys> refSys;
    for (; steps < v.budget; steps++) {
      hexref::Domain d = m.classifyNext(false, false);
      if (d != hexref::D_OK) { cut = hexref::domainName(d); break; }
      if (m.classifyNext(false, true) == hexref::D_READ_UNWRITTEN) readUnwritten = true;
      uint8_t inst = m.byteAt(m.pc);
      uint32_t sp = m.mem[1];
      m.step();
      if (m.last.wrote) dirty.push_back(m.last.waddr);
      if (inst == 0xD3) { auto rd = [&](uint32_t a) { return a < W ? m.mem[a] : 0u; }; refSys.push_back({m.last.sysno, rd(sp + 1), rd(sp + 2), rd(sp + 3)}); }
      if (m.last.exited) { exited = true; steps++; break; }
    }
    if (rio.missingFileReads) { o.note = "skipped:read_missing_simin"; return; }
    if (readUnwritten) o.count("probe.image_reads_unwritten_word");
    if (steps == 0) { o.note = "skipped:first_step_outside_domain"; return; }
    o.simInstr = steps;
    std::string imgClass = v.progName != "generated" ? "corpus" : readUnwritten ? "reads_unwritten" : "generated";
    sim::g_log.evs("image", v.progName, sim::hashStr(v.file));
    if (v.tailCut) o.count("fault.file_ends_inside_last_word");
    if (v.cycleBase) { o.count("fault.cycle_counter_starts_high"); sim::g_log.ev("cycle_base", v.cycleBase); }
    // Where the defined part of the run ends: EXIT, or `steps` instructions (domain cut / budget).
    // A run that ends at an undefined opcode, OPR operand or system-call number ends in hexsim's own
    // error path (a runtime_error with a fixed text): that is behaviour of "the same binary" too, and
    // it must not depend on the host or on -t.  Any other end of the domain (an access outside
    // hexsim's array) is undefined behaviour of the simulator and is never run into.
    bool throwsAtEnd = !exited && (cut == "undef_opcode" || cut == "undef_opr" || cut == "undef_syscall");
    if (throwsAtEnd) o.count("probe.run_ends_in_hexsim_error_path");
    uint64_t stopAfter = (exited || throwsAtEnd) ? 0 : steps;
    std::vector<Host> hosts; std::vector<int> tool;
    hosts.push_back(Host()); tool.push_back(0);                // pristine, library level
    for (size_t k = 0; k < v.hosts.size(); k++) { hosts.push_back(v.hosts[k]); tool.push_back(v.toolLevel[k]); }

    // (a) full runs in every host state equal hexref.
    std::vector<RunRes> full;
    for (size_t k = 0; k < hosts.size() && !o.violated; k++) {
      bool asTool = tool[k] && exited;       // a tool run cannot be stopped at the domain boundary
      bool viaXrun = asTool && tool[k] == 2 && !v.xsource.empty();
      RunRes r = asTool ? runTool(v, hosts[k], false, 0, viaXrun, v.xsource) : runLib(v, hosts[k], false, 0, stopAfter);
      if (viaXrun) o.count("probe.xrun_level_run");
      sim::g_log.evs("run", hosts[k].str() + (asTool ? " tool" : " lib") + " -> " + r.t.str() + " out=" + std::to_string(r.out.size()));
      o.count(std::string("fault.host_heap_") + sim::heap::modeName(hosts[k].heapMode));
      o.count("fault.host_arena_" + std::to_string(hosts[k].arenaMode));
      if (hosts[k].scribble) o.count("fault.heap_scribble_on_free");
      o.count("fault.host_stack_" + std::to_string(hosts[k].stackMode));
      if (asTool) o.count("probe.tool_level_run");
      o.stateKeys.push_back("c12 img=" + imgClass + " arena=" + std::to_string(hosts[k].arenaMode) + " stack=" + std::to_string(hosts[k].stackMode) + (asTool ? " tool" : " lib") + (exited ? " exit" : " cut"));
      if (hung(r.t)) { o.note = "skipped:watchdog"; o.count("probe.watchdog_hit"); return; }
      std::string why;
      if (r.t.kind == sim::Trapped::CRASHED) why = "hexsim " + r.t.str();
      else if (r.t.kind == sim::Trapped::THREW && !throwsAtEnd) why = "hexsim threw '" + r.t.what + "' inside the ISA's defined domain";
      else if (throwsAtEnd && r.t.kind != sim::Trapped::THREW) why = "hexsim " + r.t.str() + " at an undefined " + cut.substr(6) + " (it reports an error in the pristine host)";
      else if (throwsAtEnd && k > 0 && r.t.what != full[0].t.what) why = "hexsim's error text differs: '" + r.t.what + "' vs '" + full[0].t.what + "'";
      else if (r.out != rio.out) why = "stdout '" + clip(r.out, 24) + "' (" + std::to_string(r.out.size()) + " bytes), ISA model '" + clip(rio.out, 24) + "' (" + std::to_string(rio.out.size()) + " bytes)";
      else if (r.consumed != rio.inPos) why = "stdin consumed " + std::to_string(r.consumed) + ", ISA model " + std::to_string(rio.inPos);
      else if (exited && (asTool ? (r.t.status & 0xFF) != (int)(m.exitValue & 0xFF) : (uint32_t)r.t.status != m.exitValue)) why = "exit status " + std::to_string(r.t.status) + ", ISA model " + std::to_string((int32_t)m.exitValue);
      else if (!asTool && r.syscalls != refSys) why = "system-call sequence differs from the ISA model (" + std::to_string(r.syscalls.size()) + " vs " + std::to_string(refSys.size()) + " calls)";
      else {
        for (int f = 0; f < 8 && why.empty(); f++) {
          std::string n = "simout" + std::to_string(f);
          bool have = r.files.count(n) != 0;
          if (have != rio.fileOutCreated[f]) why = n + (have ? " created unexpectedly" : " missing");
          else if (have && r.files[n] != rio.fileOut[f]) why = n + " contents differ";
        }
      }
      if (!why.empty()) {
        bool hostDep = k > 0 && cmpRuns(r, full[0], true, exited).size() > 0;
        o.violate("host_state_dependent", why + " [host " + hosts[k].str() + ", image " + v.progName + (readUnwritten ? ", reads unwritten memory" : "") + "]",
                  std::string("host_state_dependent:") + (readUnwritten ? "unwritten_memory" : hostDep ? "run" : "differs_from_isa"));
      }
      full.push_back(r);
    }
    if (o.violated) return;
    o.nontrivial = !refSys.empty() || hosts.size() > 1;

    // (b) a run cut by --max-cycles returns a defined status: the same in every host state.
    if (v.hasMax) {
      // cycles <= maxCycles executes maxCycles+1 instructions; keep the cut inside the defined part.
      uint64_t k = steps > 1 ? 1 + v.maxCycles % (steps - 1 > 0 ? steps - 1 : 1) : 0;
      if (k >= 1 && k + 1 <= steps - (exited ? 0 : 0) && k + 1 < steps) {
        std::vector<RunRes> cutRuns;
        for (size_t h = 0; h < hosts.size() && !o.violated; h++) {
          bool cutViaXrun = tool[h] == 2 && !v.xsource.empty();      // xrun builds its Processor separately from hexsim
          RunRes r = tool[h] ? runTool(v, hosts[h], false, k, cutViaXrun, v.xsource) : runLib(v, hosts[h], false, k, 0);
          if (cutViaXrun) o.count("probe.xrun_level_cut_run");
          sim::g_log.evs("cut_run", hosts[h].str() + " -> " + r.t.str() + " out=" + std::to_string(r.out.size()), k);
          o.count("fault.max_cycles_cut_fired");
          cutRuns.push_back(r);
          if (hung(r.t)) { o.note = "skipped:watchdog"; o.count("probe.watchdog_hit"); return; }
          if (r.t.kind == sim::Trapped::CRASHED) { o.violate("host_state_dependent", "hexsim " + r.t.str() + " with --max-cycles " + std::to_string(k), "host_state_dependent:cut_crash"); break; }
          if (h > 0) {
            // Tool and library runs are compared on status modulo 256.
            RunRes a = cutRuns[0], b = r;
            if (tool[h]) { a.t.status &= 0xFF; b.t.status &= 0xFF; }
            std::string d = cmpRuns(b, a, true, true);
            if (!d.empty()) o.violate("host_state_dependent", "run cut by --max-cycles " + std::to_string(k) + ": " + d + " [host " + hosts[h].str() + " vs pristine, image " + v.progName + "]", "host_state_dependent:cut_status");
          }
        }
        o.stateKeys.push_back("c12 cut=" + std::string(k < 3 ? "early" : k + 3 > steps ? "late" : "mid"));
      }
    }
    if (o.violated) return;

    // (b2) a limit the run does not reach does not cut it short: EXIT is instruction `steps` (1-based),
    // --max-cycles N allows N+1 instructions, so from N = steps-1 on the run is the ordinary run: same
    // output, same input consumption, same files and the program's exit value as its status.
    if (v.hasMax && exited && steps >= 2) {
      static const uint64_t slack[] = {0, 0, 1, 2, 1000};
      uint64_t k = steps - 1 + slack[v.maxCycles % 5];
      for (size_t h = 0; h < hosts.size() && !o.violated; h++) {
        bool viaX = tool[h] == 2 && !v.xsource.empty();
        RunRes r = tool[h] ? runTool(v, hosts[h], false, k, viaX, v.xsource) : runLib(v, hosts[h], false, k, 0);
        sim::g_log.evs("limit_not_reached_run", hosts[h].str() + " -> " + r.t.str() + " out=" + std::to_string(r.out.size()), k);
        o.count("fault.max_cycles_at_or_after_exit");
        if (hung(r.t)) { o.note = "skipped:watchdog"; o.count("probe.watchdog_hit"); return; }
        RunRes a = full[h], b = r;
        if (tool[h]) { a.t.status &= 0xFF; b.t.status &= 0xFF; }
        std::string d = r.t.kind == sim::Trapped::CRASHED ? "hexsim " + r.t.str() : cmpRuns(b, a, true, true);
        if (!d.empty()) o.violate("host_state_dependent", "--max-cycles " + std::to_string(k) + " lets the run finish (EXIT is instruction " + std::to_string(steps) + ") but changes it: " + d + " [host " + hosts[h].str() + ", image " + v.progName + "]", "host_state_dependent:limit_not_reached");
      }
      o.stateKeys.push_back("c12 limit_not_reached slack=" + std::to_string(slack[v.maxCycles % 5]));
    }
    if (o.violated) return;

    // (d) --dump lists the loaded words and runs nothing: the same text and status in every host state
    // (it prints one word beyond the image, which must read as zero like any uncovered word).
    if (v.dump) {
      std::vector<RunRes> dumps;
      for (size_t h = 0; h < hosts.size() && !o.violated; h++) {
        RunRes r = runTool(v, hosts[h], false, 0, false, "", true);
        sim::g_log.evs("dump_run", hosts[h].str() + " -> " + r.t.str() + " out=" + std::to_string(r.out.size()));
        o.count("fault.dump_option");
        if (hung(r.t)) { o.note = "skipped:watchdog"; return; }
        dumps.push_back(r);
        std::string d = h ? cmpRuns(r, dumps[0], true, true) : "";
        if (r.t.kind == sim::Trapped::CRASHED) d = "hexsim --dump " + r.t.str();
        if (!d.empty()) o.violate("host_state_dependent", "--dump: " + d + " [host " + hosts[h].str() + " vs pristine, image " + v.progName + "]", "host_state_dependent:dump");
      }
    }
    if (o.violated) return;

    // (c) -t only adds trace text.
    if (v.trace && steps <= 6000) {      // every traced instruction is a line of output
      // The trace text itself is output of the run: the same bytes in every host state.  Reference
      // per entry point (library, hexsim, xrun): the traced run in the pristine host.
      std::map<int, std::string> pristineTrace;
      for (size_t h = 0; h < hosts.size() && !o.violated; h++) {
        bool asTool = tool[h] && exited;
        bool viaXrun = asTool && tool[h] == 2 && !v.xsource.empty();     // the same entry point as the plain run
        RunRes r = asTool ? runTool(v, hosts[h], true, 0, viaXrun, v.xsource) : runLib(v, hosts[h], true, 0, stopAfter);
        sim::g_log.evs("trace_run", hosts[h].str() + " -> " + r.t.str() + " out=" + std::to_string(r.out.size()));
        o.count("fault.trace_on");
        if (hung(r.t)) { o.note = "skipped:watchdog"; o.count("probe.watchdog_hit"); return; }
        const RunRes &base = full[h];
        std::string d = cmpRuns(r, base, false, exited);
        if (d.empty() && !asTool && r.syscalls != base.syscalls) d = "system-call sequence differs (" + std::to_string(r.syscalls.size()) + " vs " + std::to_string(base.syscalls.size()) + ")";
        if (d.empty() && r.out.size() < base.out.size()) d = "trace run wrote fewer bytes than the plain run";
        if (!d.empty()) o.violate("host_state_dependent", "-t changed the run: " + d + " [host " + hosts[h].str() + ", image " + v.progName + "]", "host_state_dependent:trace");
        if (o.violated || r.t.kind == sim::Trapped::CRASHED) continue;
        int level = !asTool ? 0 : viaXrun ? 2 : 1;
        if (h == 0) { pristineTrace[0] = r.out; continue; }
        if (!pristineTrace.count(level)) {
          RunRes p = viaXrun ? runTool(v, Host(), true, 0, true, v.xsource) : runTool(v, Host(), true, 0, false, "");
          if (hung(p.t)) { o.note = "skipped:watchdog"; o.count("probe.watchdog_hit"); return; }
          pristineTrace[level] = p.out;
        }
        o.count("probe.trace_text_compared_across_hosts");
        const std::string &want = pristineTrace[level];
        if (r.out != want) {
          size_t at = 0; while (at < r.out.size() && at < want.size() && r.out[at] == want[at]) at++;
          size_t ls = r.out.rfind('\n', at ? at - 1 : 0); ls = ls == std::string::npos ? 0 : ls + 1;
          o.violate("host_state_dependent", "-t output differs between host states at byte " + std::to_string(at) + " ('" + clip(r.out.substr(ls, 70), 70) + "' vs '" + clip(want.substr(std::min(ls, want.size()), 70), 70) + "') [host " + hosts[h].str() + " vs pristine, image " + v.progName + "]", "host_state_dependent:trace_text");
        }
      }
      o.stateKeys.push_back("c12 trace img=" + imgClass);
    }
    // (c') runs too long to trace completely (programs that never exit inside the budget: they run off
    // the end of the image through zero memory, or loop): the first T instructions, traced and not,
    // at library level in every host state, stopped by the observer at the same instruction.
    if (v.trace && steps > 6000 && !o.violated) {
      uint64_t T = 1500 + v.maxCycles % 2500;
      std::string pristine;
      for (size_t h = 0; h < hosts.size() && !o.violated; h++) {
        RunRes base = runLib(v, hosts[h], false, 0, T);
        RunRes r = runLib(v, hosts[h], true, 0, T);
        sim::g_log.evs("trace_prefix_run", hosts[h].str() + " -> " + r.t.str() + " out=" + std::to_string(r.out.size()), T);
        o.count("fault.trace_on_prefix_of_long_run");
        if (hung(r.t) || hung(base.t)) { o.note = "skipped:watchdog"; o.count("probe.watchdog_hit"); return; }
        std::string d = cmpRuns(r, base, false, true);
        if (d.empty() && r.syscalls != base.syscalls) d = "system-call sequence differs (" + std::to_string(r.syscalls.size()) + " vs " + std::to_string(base.syscalls.size()) + ")";
        if (!d.empty()) { o.violate("host_state_dependent", "-t changed the first " + std::to_string(T) + " instructions of the run: " + d + " [host " + hosts[h].str() + ", image " + v.progName + "]", "host_state_dependent:trace"); break; }
        if (r.t.kind == sim::Trapped::CRASHED) break;
        if (h == 0) { pristine = r.out; continue; }
        o.count("probe.trace_text_compared_across_hosts");
        if (r.out != pristine) {
          size_t at = 0; while (at < r.out.size() && at < pristine.size() && r.out[at] == pristine[at]) at++;
          o.violate("host_state_dependent", "-t output of the first " + std::to_string(T) + " instructions differs between host states at byte " + std::to_string(at) + " [host " + hosts[h].str() + " vs pristine, image " + v.progName + "]", "host_state_dependent:trace_text");
        }
      }
      o.stateKeys.push_back("c12 trace_prefix img=" + imgClass + (v.hasSymbols ? " symbols" : ""));
    }
  }

  //===========================================================================================
  // C11
  //===========================================================================================
  struct StepRes {
    sim::Trapped t;
    std::string out, err;
    std::map<std::string, std::string> files;
    std::string str() const { return t.str() + " out=" + std::to_string(out.size()) + " err='" + clip(err, 50) + "' files=" + std::to_string(files.size()); }
  };
  std::map<uint64_t, StepRes> refCache;

  static xcmp::DriverAction xAction(const std::string &a) {
    if (a == "tokens") return xcmp::DriverAction::EMIT_TOKENS;
    if (a == "tree") return xcmp::DriverAction::EMIT_TREE;
    if (a == "tree_opt") return xcmp::DriverAction::EMIT_OPTIMISED_TREE;
    if (a == "insts") return xcmp::DriverAction::EMIT_INTERMEDIATE_INSTS;
    if (a == "insts_lowered") return xcmp::DriverAction::EMIT_LOWERED_INSTS;
    if (a == "insts_optimised") return xcmp::DriverAction::EMIT_OPTIMISED_INSTS;
    if (a == "asm") return xcmp::DriverAction::EMIT_ASM;
    return xcmp::DriverAction::EMIT_BINARY;
  }
  static const char *xFlag(const std::string &a) {
    if (a == "tokens") return "--tokens";
    if (a == "tree") return "--tree";
    if (a == "tree_opt") return "--tree-opt";
    if (a == "insts") return "--insts";
    if (a == "insts_lowered") return "--insts-lowered";
    if (a == "insts_optimised") return "--insts-optimised";
    if (a == "asm") return "-S";
    if (a == "memory_info") return "--memory-info";
    return nullptr;
  }

  // Second layer: the first main-level steps of each worker are written out; bin/check repeats them
  // with the real executables under MALLOC_PERTURB_, environment sizes and ASLR on/off.
  int obsLeft = -1;
  void dumpStep(const std::vector<std::string> &argv, const std::string &srcName, const std::string &src) {
    if (obsLeft < 0) { const char *n = getenv("VERIF_OBS_COUNT"); obsLeft = n ? std::atoi(n) : 0; }
    const char *path = getenv("VERIF_OBS_FILE");
    if (obsLeft <= 0 || !path || src.size() > 20000) return;
    obsLeft--;
    Json j = Json::object();
    Json av = Json::array(); for (auto &a : argv) av.push(a);
    j["argv"] = av; j["src_name"] = srcName; j["src_hex"] = sim::toHex(src);
    std::string line = j.dump() + "\n";
    int fd = ::open(path, O_WRONLY | O_CREAT | O_APPEND, 0644);
    if (fd >= 0) { ssize_t w = ::write(fd, line.data(), line.size()); (void)w; ::close(fd); }
  }

  StepRes runStep(const std::string &tool, const std::string &action, const std::string &via, const std::string &src, const Host &h, const std::string *preOut = nullptr) {
    StepRes res;
    sim::fs::reset();
    bool isX = tool == "xcmp";
    std::string srcName = isX ? "src.x" : "src.S";
    sim::fs::put(srcName, src);
    if (preOut) sim::fs::put("out.bin", *preOut);      // the output path is already taken (an earlier build, or anything else)
    ss.attach("");
    if (isX && via == "lib") {
      res.t = underHost(h, [&]() -> int {
        xcmp::Driver driver(std::cout);
        return driver.runCatchExceptions(xAction(action), src, false, "out.bin", action == "memory_info");
      });
    } else {
      std::vector<std::string> argv = {tool, srcName};
      if (isX) { if (const char *f = xFlag(action)) argv.push_back(f); }
      else { if (action == "instrs") argv.push_back("--instrs"); if (action == "tokens") argv.push_back("--tokens"); }
      argv.push_back("-o"); argv.push_back("out.bin");
      if (!h.pristine()) dumpStep(argv, srcName, src);
      std::vector<const char *> av;
      for (auto &a : argv) av.push_back(a.c_str());
      av.push_back(nullptr);
      int argc = (int)argv.size();
      res.t = underHost(h, [&]() -> int { return isX ? xcmp_main(argc, av.data()) : hexasm_main(argc, av.data()); });
    }
    res.out = ss.out.data; res.err = ss.err.data;
    ss.detach();
    res.files = sim::fs::snapshot();
    res.files.erase(srcName);
    return res;
  }

  static std::string cmpSteps(const StepRes &a, const StepRes &b) {
    if (a.t.kind != b.t.kind) return "ended " + a.t.str() + " vs " + b.t.str();
    if (a.t.kind == sim::Trapped::THREW && a.t.what != b.t.what) return "exception '" + clip(a.t.what) + "' vs '" + clip(b.t.what) + "'";
    if (a.t.status != b.t.status) return "status " + std::to_string(a.t.status) + " vs " + std::to_string(b.t.status);
    if (a.err != b.err) return "diagnostics '" + clip(a.err) + "' vs '" + clip(b.err) + "'";
    if (a.out != b.out) {
      size_t k = 0; while (k < a.out.size() && k < b.out.size() && a.out[k] == b.out[k]) k++;
      return "listing differs at byte " + std::to_string(k) + ": '" + clip(a.out.substr(k > 10 ? k - 10 : 0), 40) + "' vs '" + clip(b.out.substr(k > 10 ? k - 10 : 0), 40) + "'";
    }
    if (a.files.size() != b.files.size()) return "different set of output files";
    for (auto &kv : a.files) {
      auto it = b.files.find(kv.first);
      if (it == b.files.end()) return "file " + kv.first + " only in one run";
      if (it->second != kv.second) {
        size_t k = 0; while (k < kv.second.size() && k < it->second.size() && kv.second[k] == it->second[k]) k++;
        return "file " + kv.first + " differs at byte " + std::to_string(k) + " (" + std::to_string(kv.second.size()) + " vs " + std::to_string(it->second.size()) + " bytes)";
      }
    }
    return "";
  }

  void execC11(const Json &plan, Outcome &o) {
    unsigned pos = 0;
    std::string lastOut;          // what the previous step of this history left at the output path
    sim::heap::Carry lastCarry;   // what it left in the allocator
    for (auto &op : plan.at("ops").a) {
      if (op.getStr("op") != "step") continue;
      std::string tool = op.getStr("tool", "xcmp"), action = op.getStr("action", "binary"), via = op.getStr("via", "main");
      std::string src;
      if (op.has("src")) src = op.getStr("src");
      else if (auto *s = sourceByName(op.getStr("src_ref"))) src = s->text;
      else continue;
      Host h = hostFrom(op);
      uint64_t key = sim::mix64(sim::hashStr(src), sim::hashStr(tool + "/" + action + "/" + via), 0);
      auto it = refCache.find(key);
      if (it == refCache.end()) {
        // The reference run's own stream and file events stay out of the history (they would be
        // missing whenever the reference comes from the cache); its summary is logged below.
        uint64_t sq = sim::g_log.seq, a1 = sim::g_log.h1, a2 = sim::g_log.h2; size_t nl = sim::g_log.lines.size();
        StepRes r = runStep(tool, action, via, src, Host());
        sim::g_log.seq = sq; sim::g_log.h1 = a1; sim::g_log.h2 = a2; if (sim::g_log.lines.size() > nl) sim::g_log.lines.resize(nl);
        if (refCache.size() > 3000) refCache.clear();
        it = refCache.emplace(key, r).first;
        o.count("probe.reference_compilations");
      }
      const StepRes ref = it->second;
      sim::g_log.evs("reference", tool + "/" + action + "/" + via + " " + ref.str(), sim::hashStr(src));   // logged whether cached or not
      if (hung(ref.t)) { o.count("probe.watchdog_hit"); o.note = "skipped:watchdog"; return; }
      if (ref.t.kind == sim::Trapped::CRASHED) {
        // The tool crashes on this source even in the pristine state: not a source "the tools accept".
        o.count("probe.source_crashes_tool_in_pristine_state");
        o.note = "skipped:tool_crashes_on_source";
        return;                      // the process is damaged; the worker restarts
      }
      std::string pre;
      if (h.preOut) {
        if ((h.preOut & 1) && !lastOut.empty()) pre = lastOut;
        else { uint64_t sd = h.preOut; size_t n = 1 + h.preOut % 6000; for (size_t q = 0; q < n; q++) pre.push_back((char)(sim::splitmix64(sd) >> 24)); }
        o.count(pre == lastOut ? "fault.output_path_holds_previous_build" : "fault.output_path_holds_junk");
      }
      bool carried = h.carry && lastCarry.valid;
      g_carryIn = carried ? &lastCarry : nullptr;
      if (carried) o.count("fault.heap_continues_from_previous_step");
      StepRes r = runStep(tool, action, via, src, h, h.preOut ? &pre : nullptr);
      g_carryIn = nullptr;
      sim::heap::saveCarry(lastCarry);
      if (hung(r.t)) { o.count("probe.watchdog_hit"); o.note = "skipped:watchdog"; return; }
      // A step that writes no binary (listing action, rejected source) leaves the file that was there.
      if (h.preOut && !ref.files.count("out.bin")) { auto f = r.files.find("out.bin"); if (f != r.files.end() && f->second == pre) r.files.erase(f); }
      { auto f = r.files.find("out.bin"); if (f != r.files.end()) lastOut = f->second; }
      sim::g_log.evs("step", std::to_string(pos) + " " + tool + "/" + action + "/" + via + " " + h.str() + " -> " + r.str(), sim::hashStr(src));
      o.simInstr++;
      o.nontrivial = true;
      o.count(std::string("fault.heap_") + sim::heap::modeName(h.heapMode));
      if (h.padSeed) o.count("fault.heap_padding"); if (h.shuffle) o.count("fault.heap_recycle_shuffle"); if (h.scribble) o.count("fault.heap_scribble_on_free"); if (h.baseShift) o.count("fault.heap_base_shift");
      o.count("fault.stack_mode_" + std::to_string(h.stackMode)); if (h.shift) o.count("fault.stack_shift");
      if (h.envPad || !h.lang.empty()) o.count("fault.environment");
      if (h.err) o.count("fault.errno_left_behind");
      if (h.clock) o.count("fault.clock_and_pid_differ");
      if (sim::simclock::readings()) o.count("probe.tool_read_the_clock_or_pid");
      if (pos > 0) o.count("fault.history_position_gt0");
      if (sim::heap::counters.recycled) o.count("probe.recycled_heap_block_reused");
      if (sim::heap::counters.overflowToMalloc) o.count("probe.arena_overflow_to_malloc");
      bool accepted = ref.t.kind == sim::Trapped::RETURNED && ref.t.status == 0 && ref.err.empty();
      o.count(accepted ? "probe.accepted_source" : "probe.rejected_source");
      o.stateKeys.push_back("c11 " + tool + "/" + action + " " + (accepted ? "acc" : "rej") + " heap=" + sim::heap::modeName(h.heapMode) + " stack=" + std::to_string(h.stackMode) + " pos=" + std::to_string(pos > 2 ? 3 : pos) + " " + clip(op.getStr("origin"), 12));
      std::string d = cmpSteps(r, ref);
      if (!d.empty()) {
        std::string part = d.compare(0, 4, "file") == 0 ? "binary" : d.compare(0, 7, "listing") == 0 ? "listing" : d.compare(0, 11, "diagnostics") == 0 ? "diagnostics" : "status";
        o.violate("host_state_dependent", tool + " " + action + " (" + via + ") on the same source: " + d + " [host " + h.str() + " vs pristine, history position " + std::to_string(pos) + ", source '" + clip(src, 70) + "']",
                  "host_state_dependent:" + tool + ":" + part);
        return;
      }
      if (r.t.kind == sim::Trapped::CRASHED) { o.note = "skipped:tool_crashes_on_source"; return; }
      pos++;
    }
  }
};

} // namespace

int main(int argc, char **argv) {
  HostSim h;
  return sim::driverMain(argc, argv, h);
}
