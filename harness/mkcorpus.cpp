// mkcorpus: compile the corpus with the working tree's own xcmp/hexasm (in-process, over the
// simulated file layer) and write the images as one JSON bundle.  Workload only.
#include "sim/driver.hpp"
#include "hexasm.hpp"
#include "xcmp.hpp"
#include "gen/xgen.hpp"
#include "gen/imggen.hpp"
#include <dirent.h>

using sim::Json;

static std::vector<std::string> listDir(const std::string &d, const std::string &ext) {
  std::vector<std::string> r;
  DIR *dir = opendir(d.c_str());
  if (!dir) return r;
  while (dirent *e = readdir(dir)) {
    std::string n = e->d_name;
    if (n.size() > ext.size() && n.compare(n.size() - ext.size(), ext.size(), ext) == 0) r.push_back(n);
  }
  closedir(dir);
  std::sort(r.begin(), r.end());
  return r;
}

static std::string imageOf(const std::string &file) {
  if (file.size() < 4) return "";
  uint32_t words = 0;
  std::memcpy(&words, file.data(), 4);
  size_t bytes = (size_t)words * 4;
  if (4 + bytes > file.size()) return "";
  return file.substr(4, bytes);
}

int main(int argc, char **argv) {
  if (argc < 3) { std::fprintf(stderr, "usage: mkcorpus <corpus dir> <out.json>\n"); return 2; }
  std::string dir = argv[1];
  Json inputs = Json::object();
  { std::string t = sim::readFile(dir + "/inputs.json"); if (!t.empty()) inputs = Json::parse(t); }
  Json out = Json::array();
  auto add = [&](const std::string &name, const std::string &kind, const std::string &src, bool isX) {
    sim::fs::reset();
    std::ostringstream sink;
    sim::Trapped t = sim::runTrapped([&]() {
      if (isX) {
        xcmp::Driver driver(sink);
        return driver.run(xcmp::DriverAction::EMIT_BINARY, src, false, "out.bin");
      }
      hexasm::Lexer lexer;
      hexasm::Parser parser(lexer);
      lexer.loadBuffer(src);
      auto tree = parser.parseProgram();
      hexasm::CodeGen cg(tree);
      cg.emitBin("out.bin");
      return 0;
    });
    std::string img = imageOf(sim::fs::get("out.bin"));
    if (t.kind != sim::Trapped::RETURNED || t.status != 0 || img.empty()) {
      std::fprintf(stderr, "mkcorpus: %s not compiled (%s)\n", name.c_str(), t.str().c_str());
      return;
    }
    Json e = Json::object();
    e["name"] = name; e["kind"] = kind;
    e["image_hex"] = sim::toHex(img);
    e["file_hex"] = sim::toHex(sim::fs::get("out.bin"));
    e["source"] = src.size() < 4000 ? Json(src) : Json();
    Json in = Json::array();
    if (auto *p = inputs.find(name)) for (auto &x : p->a) in.push(x);
    if (in.size() == 0) in.push("");
    e["inputs"] = in;
    out.push(e);
  };
  for (auto &f : listDir(dir + "/x", ".x")) add(f.substr(0, f.size() - 2), "x", sim::readFile(dir + "/x/" + f), true);
  for (auto &f : listDir(dir + "/asm", ".S")) add("asm_" + f.substr(0, f.size() - 2), "asm", sim::readFile(dir + "/asm/" + f), false);
  {
    std::string t = sim::readFile(dir + "/x_features.json");
    if (!t.empty()) for (auto &p : Json::parse(t).a) add(p.getStr("name"), "x", p.getStr("source"), true);
  }
  // Generated programs (seeded): xg<k> from xgen, ag<k> from asmgen.
  int genCount = argc > 3 ? std::atoi(argv[3]) : 0;
  uint64_t seed = argc > 4 ? std::strtoull(argv[4], nullptr, 0) : 1;
  for (int k = 0; k < genCount; k++) {
    sim::Rng r(sim::mix64(seed, 0x9e17, (uint64_t)k));
    bool isX = k % 3 != 2;
    bool rawImage = !isX && (k % 9 == 8);        // every third assembly program is a raw imggen image as DATA words
    std::string name = std::string(isX ? "xg" : rawImage ? "ai" : "ag") + std::to_string(k);
    std::string src;
    if (isX) src = gen::makeX(r);
    else if (rawImage) { gen::ImgCfg ic; ic.maxWords = 64; ic.undefPerMille = 0; src = gen::imageAsAsm(gen::makeImage(r, ic)); }
    else src = gen::makeAsm(r);
    Json in = Json::array();
    int ni = 1 + (int)r.below(3);
    for (int q = 0; q < ni; q++) { std::string b; size_t n = (size_t)r.below(8); for (size_t z = 0; z < n; z++) b.push_back((char)(r.chance(1, 3) ? r.below(256) : 1 + r.below(20))); in.push(sim::toHex(b)); }
    inputs[name] = in;
    add(name, isX ? "xgen" : "asmgen", src, isX);
  }
  // A few large binaries (hundreds of kilobytes): a table of DATA words with code that reads words
  // spread over it, the last ones close to its end, prints a byte of each and exits with their sum.
  if (genCount > 0) {
    static const unsigned sizes[] = {49000, 50010, 52000, 61000, 100003, 150000};
    for (unsigned b = 0; b < 6; b++) {
      sim::Rng r(sim::mix64(seed, 0xB16, b));
      unsigned n = sizes[b];
      std::vector<unsigned> picks = {0, 1, n / 3, n / 2, 50000 < n ? 50001u : n - 3, n - 2, n - 1};
      std::string src = "BR start\nDATA 199000\nstart\nLDAC 0\nSTAM acc\n";
      for (unsigned k : picks) {
        std::string lab = "t" + std::to_string(k);
        src += "LDAM " + lab + "\nLDBM acc\nOPR ADD\nSTAM acc\n";                        // acc += table[k]
        src += "LDAM " + lab + "\nLDBM 1\nSTAI 2\nLDAC 0\nSTAI 3\nLDAC 1\nOPR SVC\n";    // put(table[k] & 255, 0)
      }
      src += "LDAM acc\nLDBM 1\nSTAI 2\nLDAC 0\nOPR SVC\nacc\nDATA 0\n";
      std::string table;
      table.reserve((size_t)n * 16);
      for (unsigned k = 0; k < n; k++) {
        bool labelled = std::find(picks.begin(), picks.end(), k) != picks.end();
        if (labelled) table += "t" + std::to_string(k) + "\n";
        table += "DATA " + std::to_string((int64_t)(int32_t)r.u32()) + "\n";
      }
      std::string name = "big" + std::to_string(b);
      Json in = Json::array(); in.push("");
      inputs[name] = in;
      add(name, "asmbig", src + table, false);
    }
  }
  // Binaries whose length is a whole number of 4096-byte pages behind the length word (and one word
  // more / less): the program prints and exits with the last word of the file's image.  The table is
  // sized by assembling once and measuring, so nothing is assumed about the file format.
  if (genCount > 0) {
    auto assemble = [&](const std::string &src) -> size_t {
      sim::fs::reset();
      sim::Trapped t = sim::runTrapped([&]() {
        hexasm::Lexer lexer; hexasm::Parser parser(lexer);
        lexer.loadBuffer(src);
        auto tree = parser.parseProgram();
        hexasm::CodeGen cg(tree);
        cg.emitBin("probe.bin");
        return 0;
      });
      return t.kind == sim::Trapped::RETURNED && t.status == 0 ? sim::fs::get("probe.bin").size() : 0;
    };
    unsigned id = 0;
    for (unsigned pages : {1u, 2u, 5u}) for (int delta : {0, 4, -4}) {
      sim::Rng r(sim::mix64(seed, 0x9A6E, id));
      auto source = [&](unsigned fill) {
        std::string src = "BR start\nDATA 199000\nstart\nLDAM last\nLDBM 1\nSTAI 2\nLDAC 0\nSTAI 3\nLDAC 1\nOPR SVC\nLDAM last\nLDBM 1\nSTAI 2\nLDAC 0\nOPR SVC\n";
        for (unsigned k = 0; k < fill; k++) src += "DATA " + std::to_string(k & 255) + "\n";
        src += "last\nDATA " + std::to_string(65 + r.below(26)) + "\n";
        return src;
      };
      size_t base = assemble(source(0));
      long want = 4 + (long)pages * 4096 + delta;
      if (base == 0 || (long)base > want || (want - (long)base) % 4 != 0) { id++; continue; }
      long fill = (want - (long)base) / 4;
      std::string src;
      bool ok = false;
      for (int it = 0; it < 6 && fill >= 0; it++) {          // operands grow with the table: measure and correct
        src = source((unsigned)fill);
        long got = (long)assemble(src);
        if (got == want) { ok = true; break; }
        if (got == 0 || (want - got) % 4 != 0) break;
        fill += (want - got) / 4;
      }
      if (!ok) { id++; continue; }                             // leave it out rather than guess
      std::string name = "page" + std::to_string(id++);
      Json in = Json::array(); in.push("");
      inputs[name] = in;
      add(name, "asmpage", src, false);
    }
  }
  sim::writeFile(argv[2], out.dump() + "\n");
  std::fprintf(stderr, "mkcorpus: %zu images\n", out.size());
  return out.size() ? 0 : 1;
}
