// imggen: raw Hex images built byte by byte from a seed (DESIGN.md §3).  Workload only: behaviour is
// always judged by hexref on the emitted bytes.
#pragma once
#include "sim/prng.hpp"
#include <cstdint>
#include <string>
#include <vector>

namespace gen {

struct ImgCfg {
  unsigned maxWords = 256;     // image size bound
  unsigned memWords = 200000;  // data addresses are biased below this
  bool header = true;          // "BR over word 1; word 1 = stack pointer" layout
  unsigned undefPerMille = 4;  // undefined bytes
  unsigned maxChain = 9;       // longest prefix chain
  unsigned spIntoCodePerMille = 70;   // the stack pointer aimed at the word of a system call
};

class ImgGen {
  sim::Rng &r;
  ImgCfg cfg;
  std::string out;
  uint32_t sp = 0;

  void byte(unsigned op, unsigned operand) { out.push_back((char)((op << 4) | (operand & 15))); }

  // Emit op with the 32-bit operand v through the shortest chain, optionally lengthened.
  void emit(unsigned op, uint32_t v, int extra = 0) {
    // Find the shortest canonical encoding.
    std::vector<unsigned> nib;   // most significant first, excluding the last nibble
    int32_t sv = (int32_t)v;
    if (sv >= 0) {
      uint32_t rest = v >> 4;
      while (rest) { nib.insert(nib.begin(), rest & 15); rest >>= 4; }
      for (int k = 0; k < extra && nib.size() < cfg.maxChain; k++) nib.insert(nib.begin(), 0);
      for (unsigned n : nib) byte(0xE, n);
    } else {
      // NFIX first: oreg = 0xFFFFFF00 | (n << 4); so bits 31..8 are ones after it.
      // Need v's bits above what the following PFIXes shift in to be all ones.
      // Choose k = number of nibbles after the NFIX nibble (excluding last): smallest such that
      // v >> (4*(k+2)) is all ones in the remaining bits.
      unsigned k = 0;
      while (k < 6 && ((int32_t)v >> (4 * (k + 2))) != -1) k++;
      // NFIX carries nibble at position k+1, then k PFIX nibbles, then the instruction nibble.
      byte(0xF, (v >> (4 * (k + 1))) & 15);
      for (unsigned j = k; j >= 1; j--) byte(0xE, (v >> (4 * j)) & 15);
    }
    byte(op, v & 15);
  }

  uint32_t cornerValue() {
    static const uint32_t c[] = {0, 1, 2, 3, 15, 16, 17, 255, 256, 257, 4095, 4096, 65535, 65536, 0x7FFFFFFF, 0x80000000u,
                                 0x80000001u, 0xFFFFFFFFu, 0xFFFFFFF0u, 0xFFFFFF00u, 0xFFFFFEFFu, 0xFFFF0000u, 199999, 200000, 799999, 800000};
    return c[r.below(sizeof c / sizeof c[0])];
  }
  uint32_t anyValue() {
    switch (r.below(4)) {
      case 0: return cornerValue();
      case 1: return (uint32_t)r.below(64);
      case 2: return (uint32_t)(-(int32_t)r.below(64));
      default: return r.u32();
    }
  }
  // A word address that is likely to be inside the domain.
  uint32_t dataAddr(unsigned imgWords) {
    switch (r.below(10)) {
      case 0: case 1: case 2: case 3: return (uint32_t)r.below(imgWords + 8);          // image
      case 4: case 5: case 6: return sp - 8 + (uint32_t)r.below(24);                   // around the stack pointer
      case 7: return cfg.memWords - 1 - (uint32_t)r.below(8);                          // top of memory
      case 8: return 1;                                                                 // the stack pointer word
      default: return (uint32_t)r.below(cfg.memWords);
    }
  }
  int32_t stream() {
    static const int32_t s[] = {0, 0, 0, 1, 255, 256, 257, 511, 512, 768, 1024, 1280, 2047, 2048, 2304, -1, -256, 0x7FFFFFFF, 256 + 7 * 256};
    return s[r.below(sizeof s / sizeof s[0])];
  }

  void svcBlock() {
    unsigned no = (unsigned)r.below(10);
    unsigned sys = no < 4 ? 1 : no < 7 ? 2 : no < 9 ? 0 : 3;   // write, read, exit, (rare) undefined
    if (sys == 3 && !r.chance(cfg.undefPerMille * 10, 1000)) sys = 1;
    emit(0x1, 1);                       // LDBM 1  (breg = sp)
    if (sys == 1) {
      emit(0x3, r.chance(1, 2) ? (uint32_t)(32 + r.below(95)) : anyValue());   // LDAC value
      emit(0x8, 2);                     // STAI 2
      emit(0x3, (uint32_t)stream());    // LDAC stream
      emit(0x8, 3);                     // STAI 3
    } else if (sys == 2) {
      emit(0x3, (uint32_t)stream());
      emit(0x8, 2);
    } else if (sys == 0) {
      emit(0x3, r.chance(1, 2) ? (uint32_t)r.below(256) : anyValue());
      emit(0x8, 2);
    }
    if (sys == 3) { static const uint32_t bad[] = {3, 3, 4, 255, 256, 0x7FFFFFFF, 0x80000000u, 0xFFFFFFFFu, 0xFFFFFF00u, 0x80000001u}; emit(0x3, bad[r.below(10)]); }   // an undefined call number, small or huge
    else
    emit(0x3, sys);                     // LDAC syscall number
    if (r.chance(1, 10)) byte(0xE, 0);  // a redundant PFIX 0 in front of the OPR
    byte(0xD, 3);                       // OPR SVC
    if (sys == 2 && r.chance(2, 3)) {   // use the value read
      emit(0x0, 1);                     // LDAM 1
      emit(0x6, 1);                     // LDAI 1
    }
  }

public:
  ImgGen(sim::Rng &rng, const ImgCfg &c) : r(rng), cfg(c) {}

  std::string make() {
    out.clear();
    unsigned words = 4 + (unsigned)r.below(cfg.maxWords > 4 ? cfg.maxWords - 4 : 1);
    if (r.chance(1, 3)) words = 4 + (unsigned)r.below(28);
    unsigned bytes = words * 4;
    sp = r.chance(5, 6) ? (uint32_t)(words + 16 + r.below(cfg.memWords - words - 64)) : r.u32();
    if (r.chance(1, 8)) sp = cfg.memWords - 4 - (uint32_t)r.below(4);
    // Corner stack pointers: the argument slots sp+1..sp+3 wrap around 2^32 onto words 0..2, or sit
    // at the very top of memory.
    if (r.chance(1, 10)) { static const uint32_t c[] = {0xFFFFFFFFu, 0xFFFFFFFEu, 0xFFFFFFFDu, 0xFFFFFFFCu, 0, 1, 199996, 199997}; sp = c[r.below(8)]; }
    if (cfg.header) {
      byte(0x9, 7);                         // BR to byte 8
      for (int k = 0; k < 3; k++) out.push_back((char)r.below(256));
      for (int k = 0; k < 4; k++) out.push_back((char)(sp >> (8 * k)));
    }
    while (out.size() + 12 < bytes) {
      unsigned pick = (unsigned)r.below(100);
      int extra = r.chance(1, 12) ? (int)r.below(cfg.maxChain) : 0;
      if (pick < 8) emit(0x3, anyValue(), extra);                      // LDAC
      else if (pick < 14) emit(0x4, anyValue(), extra);                // LDBC
      else if (pick < 22) emit(0x0, dataAddr(words), extra);           // LDAM
      else if (pick < 28) emit(0x1, dataAddr(words), extra);           // LDBM
      else if (pick < 36) emit(0x2, dataAddr(words), extra);           // STAM
      else if (pick < 40) emit(0x5, r.chance(3, 4) ? (uint32_t)(int32_t)r.range(-40, 40) : anyValue(), extra);  // LDAP
      else if (pick < 47) { emit(0x3, dataAddr(words)); emit(0x6, (uint32_t)(int32_t)r.range(-4, 8), extra); } // LDAC a; LDAI k
      else if (pick < 53) { emit(0x4, dataAddr(words)); emit(0x7, (uint32_t)(int32_t)r.range(-4, 8), extra); } // LDBC a; LDBI k
      else if (pick < 60) { emit(0x4, dataAddr(words)); emit(0x8, (uint32_t)(int32_t)r.range(-4, 8), extra); } // LDBC a; STAI k
      else if (pick < 63) emit(0x6 + (unsigned)r.below(3), (uint32_t)(int32_t)r.range(-8, 8), extra);          // bare indexed op
      else if (pick < 70) emit(0x9 + (unsigned)r.below(3), (uint32_t)(int32_t)(r.chance(4, 5) ? r.range(0, 12) : r.range(-30, 30)), extra); // branches
      else if (pick < 73) emit(0x9 + (unsigned)r.below(3), anyValue(), extra);
      else if (pick < 80) {                                             // ADD / SUB, now and then behind redundant PFIX 0 bytes
        if (r.chance(1, 8)) { int n = 1 + (int)r.below(3); for (int q = 0; q < n; q++) byte(0xE, 0); }
        byte(0xD, 1 + (unsigned)r.below(2));
      }
      else if (pick < 83) {                                            // computed jump inside the image
        uint32_t t = (uint32_t)r.below(bytes);
        emit(0x4, t); byte(0xD, 0);
      }
      else if (pick < 95) svcBlock();
      else if (pick < 97) { byte(0xE + (unsigned)r.below(2), (unsigned)r.below(16)); }     // stray prefix
      else if (pick < 99) { emit(0x3, cornerValue()); emit(0xA + (unsigned)r.below(2), (uint32_t)r.below(6)); } // BRZ/BRN on a corner value
      else if (r.chance(cfg.undefPerMille * 25, 1000)) { out.push_back((char)(r.chance(1, 2) ? 0xC0 | r.below(16) : 0xD0 | (4 + r.below(12)))); }
    }
    // Usually finish with a clean exit so that complete runs are common.
    if (r.chance(4, 5)) {
      emit(0x1, 1); emit(0x3, (uint32_t)r.below(256)); emit(0x8, 2); emit(0x3, 0); byte(0xD, 3);
    }
    while (out.size() % 4) out.push_back((char)0);
    // Now and then the stack pointer is aimed so that a system call's result slot (sp+1) is the very word
    // its OPR SVC sits in, or the next one: the call then rewrites code that is about to run.
    if (cfg.header && r.chance(cfg.spIntoCodePerMille, 1000)) {
      std::vector<size_t> svc, rd;
      for (size_t k = 8; k < out.size(); k++) if ((unsigned char)out[k] == 0xD3) { svc.push_back(k); if ((unsigned char)out[k - 1] == 0x32) rd.push_back(k); }
      if (!rd.empty() && r.chance(2, 3)) svc = rd;       // mostly a READ call: its result is what lands in the code
      if (!svc.empty()) {
        uint32_t w = (uint32_t)(svc[r.chance(1, 2) ? 0 : r.below(svc.size())] / 4);     // often the first call: nothing has scribbled over the code yet
        uint32_t nsp = w - 1 + (uint32_t)r.below(2);
        for (int k = 0; k < 4; k++) out[4 + (size_t)k] = (char)(nsp >> (8 * k));
      }
    }
    return out;
  }
};

inline std::string makeImage(sim::Rng &r, const ImgCfg &c) { ImgGen g(r, c); return g.make(); }

} // namespace gen
