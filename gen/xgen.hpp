// xgen / asmgen: small seeded generators of X and assembly sources.  Workload only (DESIGN.md §3):
// they are never an oracle.  Behaviour of what they produce is judged on the emitted binary by
// hexref, and for C11/C14 only acceptance and byte-identity matter.
#pragma once
#include "sim/prng.hpp"
#include <string>
#include <vector>

namespace gen {

class XGen {
  sim::Rng &r;
  std::vector<std::string> globals, arrays, funcs, procs;
  std::vector<int> arraySize, funcArity, procArity;
  int loopId = 0;

  std::string num() {
    switch (r.below(8)) {
      case 0: return "0";
      case 1: return "1";
      case 2: return std::to_string(r.below(16));
      case 3: return std::to_string(r.below(300));
      case 4: return "#" + hexs((uint32_t)r.below(0x10000));
      case 5: if (r.chance(1, 8)) { static const char *esc[] = {"\\t", "\\r", "\\n", "\\\\", "\\'", "\\\""}; return "'" + std::string(esc[r.below(6)]) + "'"; }
              return "'" + std::string(1, (char)('a' + r.below(26))) + "'";
      case 6: if (r.chance(1, 6)) { static const char *lim[] = {"#FFFFFFFF", "#7FFFFFFF", "#80000000", "2147483647", "4294967295", "2147483648", "#FFFF", "#10000", "65535", "65536", "'~'", "' '"}; return lim[r.below(12)]; }
              return std::to_string(60000 + r.below(80000));       // straddles the immediate/pool boundary
      default: return std::to_string(r.below(100));
    }
  }
  static std::string hexs(uint32_t v) { char b[16]; std::snprintf(b, sizeof b, "%X", v); return b; }

  std::string outStream() {
    // File indices 0, 3, 4, 6, 7 for output; 1, 2, 5 for input (one direction per index; a rare
    // clash is kept on purpose: such a run is cut as io_wrong_mode).
    static const char *s[] = {"0", "0", "0", "255", "768", "1024", "1792", "2048", "1023", "1600", "67328", "1536", "256"};
    return s[r.below(sizeof s / sizeof s[0])];
  }
  std::string inStream() {
    static const char *s[] = {"0", "0", "0", "255", "256", "512", "1280"};
    return s[r.below(sizeof s / sizeof s[0])];
  }

  // Variables readable at this point.
  std::string var(const std::vector<std::string> &locals) {
    size_t n = locals.size() + globals.size();
    if (!n) return num();
    size_t k = (size_t)r.below(n);
    return k < locals.size() ? locals[k] : globals[k - locals.size()];
  }
  std::string elem(const std::vector<std::string> &locals, int depth) {
    switch (r.below(depth > 0 ? 9 : 4)) {
      case 0: case 1: return var(locals);
      case 2: case 3: return num();
      case 4: if (!arrays.empty()) { size_t a = (size_t)r.below(arrays.size()); return arrays[a] + "[" + std::to_string(r.below((uint64_t)arraySize[a])) + "]"; } return var(locals);
      case 5: if (!funcs.empty()) { size_t f = (size_t)r.below(funcs.size()); return funcs[f] + "(" + args(locals, funcArity[f], depth - 1) + ")"; } return num();
      case 6: return "get(" + inStream() + ")";
      case 7: return r.chance(1, 2) ? "true" : "false";
      default: return "(" + expr(locals, depth - 1) + ")";
    }
  }
  // Actuals avoid '=' (and the operators rewritten into it): an '=' next to a call inside a call
  // actual crashes the pinned compiler, which would only thin out the workload.
  int inActual = 0;
  std::string args(const std::vector<std::string> &locals, int n, int depth) {
    std::string s;
    inActual++;
    for (int k = 0; k < n; k++) { if (k) s += ", "; s += expr(locals, depth); }
    inActual--;
    return s;
  }
  std::string expr(const std::vector<std::string> &locals, int depth) {
    switch (r.below(10)) {
      case 0: return "-" + elem(locals, depth);
      case 1: return "~" + elem(locals, depth);
      case 2: case 3: {
        static const char *ops[] = {"<", "-", ">", "=", "~=", "<=", ">="};
        return elem(locals, depth) + " " + ops[r.below(inActual ? 3 : 7)] + " " + elem(locals, depth);
      }
      case 4: case 5: {
        static const char *ops[] = {"+", "and", "or"};
        const char *op = ops[r.below(3)];
        std::string s = elem(locals, depth);
        int n = 1 + (int)r.below(3);
        for (int k = 0; k < n; k++) s += std::string(" ") + op + " " + elem(locals, depth);
        return s;
      }
      default: return elem(locals, depth);
    }
  }
  std::string stmt(const std::vector<std::string> &locals, std::vector<std::string> &counters, int depth, bool inFunc) {
    switch (r.below(depth > 0 ? 12 : 7)) {
      case 0: case 1: {
        if (locals.empty() && globals.empty()) return "skip";
        // Never assign a loop counter.
        for (int t = 0; t < 4; t++) {
          std::string v = var(locals);
          bool isCounter = false;
          for (auto &c : counters) if (c == v) isCounter = true;
          if (!isCounter && (v[0] < '0' || v[0] > '9') && v[0] != '#' && v[0] != '\'') return v + " := " + expr(locals, 2);
        }
        return "skip";
      }
      case 2: if (!arrays.empty()) { size_t a = (size_t)r.below(arrays.size()); return arrays[a] + "[" + std::to_string(r.below((uint64_t)arraySize[a])) + "] := " + expr(locals, 2); } return "skip";
      case 3: case 4: { inActual++; std::string e = expr(locals, 1); inActual--; return "put(" + e + ", " + outStream() + ")"; }
      case 5: if (!procs.empty()) { size_t p = (size_t)r.below(procs.size()); return procs[p] + "(" + args(locals, procArity[p], 1) + ")"; } return "skip";
      case 6: return "skip";
      case 7: case 8: return "if " + expr(locals, 2) + " then " + stmt(locals, counters, depth - 1, inFunc) + " else " + stmt(locals, counters, depth - 1, inFunc);
      case 9: {
        // Bounded loop over a dedicated counter (a global, so that nested calls cannot alias it).
        if (counters.size() >= 3) return "skip";
        std::string c = "lc" + std::to_string(loopId++);
        globals.push_back(c);
        counters.push_back(c);
        std::string body = stmt(locals, counters, depth - 1, inFunc);
        counters.pop_back();
        return "{ " + c + " := 0; while " + c + " < " + std::to_string(1 + r.below(5)) + " do { " + body + "; " + c + " := " + c + " + 1 } }";
      }
      default: {
        int n = 2 + (int)r.below(3);
        std::string s = "{ ";
        for (int k = 0; k < n; k++) { if (k) s += "; "; s += stmt(locals, counters, depth - 1, inFunc); }
        return s + " }";
      }
    }
  }

public:
  explicit XGen(sim::Rng &rng) : r(rng) {}
  bool exoticDecls = false;       // array lengths and vals written as constant expressions (C11's own workload: many are rejected)

  std::string make() {
    globals.clear(); arrays.clear(); funcs.clear(); procs.clear(); arraySize.clear(); funcArity.clear(); procArity.clear(); loopId = 0;
    std::string decls = "val put = 1; val get = 2; val exit = 0;\n";
    int ng = (int)r.below(4), na = (int)r.below(3);
    for (int k = 0; k < ng; k++) { globals.push_back("g" + std::to_string(k)); }
    for (int k = 0; k < na; k++) { arrays.push_back("arr" + std::to_string(k)); arraySize.push_back(1 + (int)r.below(8)); }
    std::string body;
    // Helpers are generated first-to-last and may call only earlier ones (no recursion: bounded run).
    int nh = (int)r.below(4);
    for (int k = 0; k < nh; k++) {
      bool isFunc = r.chance(1, 2);
      int arity = (int)r.below(4);
      std::string name = std::string(isFunc ? "f" : "p") + std::to_string(k);
      // Now and then a long name (they end up in the symbol table and in every trace line).
      if (r.chance(1, 8)) { static const unsigned len[] = {12, 24, 26, 27, 28, 29, 30, 31, 32, 33, 48, 64, 100, 255, 256, 300}; name += "_" + std::string(len[r.below(16)], (char)('a' + r.below(26))); }
      std::vector<std::string> locals;
      std::string formals;
      for (int a = 0; a < arity; a++) { std::string f = "a" + std::to_string(a); locals.push_back(f); if (a) formals += ", "; formals += "val " + f; }
      std::string ldecl;
      int nl = (int)r.below(3);
      std::string init;
      for (int l = 0; l < nl; l++) { std::string v = "t" + std::to_string(l); ldecl += "var " + v + "; "; init += v + " := " + num() + "; "; locals.push_back(v); }
      std::vector<std::string> counters;
      std::string st = stmt(locals, counters, 2, isFunc);
      body += std::string(isFunc ? "func " : "proc ") + name + "(" + formals + ") is " + ldecl + "{ " + init + st + (isFunc ? "; return " + expr(locals, 1) : std::string()) + " }\n";
      if (isFunc) { funcs.push_back(name); funcArity.push_back(arity); } else { procs.push_back(name); procArity.push_back(arity); }
    }
    // Optional prelude: helpers that take an array parameter (string literals are passed to them),
    // a recursive function, and a procedure that takes a function parameter.
    std::vector<std::string> preludeCalls;
    if (r.chance(1, 2)) {
      body += "proc strout(array s, val n) is var i; { i := 0; while i < n do { put(s[i], 0); i := i + 1 } }\n";
      body += "func strword(array s, val k) is return s[k]\n";
      body += "proc strout2(array s, val n) is strout(s, n)\n";      // an array formal passed on
      auto lit = [&]() { std::string t; size_t n = (size_t)r.below(9); for (size_t q = 0; q < n; q++) { char c = (char)('a' + r.below(26)); if (r.chance(1, 12)) { static const char *esc[] = {"\\n", "\\n", "\\t", "\\r", "\\\\", "\\'", "\\\""}; t += esc[r.below(7)]; continue; } t.push_back(c); } return "\"" + t + "\""; };
      int nc = 1 + (int)r.below(3);
      for (int q = 0; q < nc; q++) {
        if (r.chance(1, 2)) preludeCalls.push_back(std::string(r.chance(1, 4) ? "strout2(" : "strout(") + lit() + ", " + std::to_string(1 + r.below(2)) + ")");
        else preludeCalls.push_back("put(strword(" + lit() + ", 0), " + outStream() + ")");
      }
    }
    // A string literal as the right operand of an operator (its address is loaded into breg).
    if (!globals.empty() && r.chance(1, 10)) preludeCalls.push_back(globals[0] + " := " + std::to_string(r.below(9)) + " + \"" + std::string(1 + r.below(6), 'z') + "\"");
    // A big global array written through a variable subscript and read through a constant one (a
    // large immediate index).
    std::string bigDecl;
    if (r.chance(1, 12)) {
      static const unsigned ns[] = {33000, 40000, 66000, 70000};
      unsigned n = ns[r.below(4)];
      static const unsigned off[] = {1, 2, 232, 7000};
      unsigned k = r.chance(1, 2) ? n - off[r.below(4)] : 32767 + (unsigned)r.below(3);
      bigDecl = "var bi;\narray big[" + std::to_string(n) + "];\n";
      preludeCalls.push_back("bi := " + std::to_string(k));
      preludeCalls.push_back("big[bi] := " + std::to_string(33 + r.below(90)));
      preludeCalls.push_back("put(big[" + std::to_string(k) + "], 0)");
    }
    if (r.chance(1, 3)) {
      body += "func rec(val n) is if n < 2 then return n else return rec(n - 1) + rec(n - 2)\n";
      preludeCalls.push_back("put(rec(" + std::to_string(r.below(9)) + "), 0)");
    }
    if (r.chance(1, 25)) {      // calling through a func formal is rejected by the pinned compiler ("unknown label f"): rejected-class workload
      body += "func twice(val x) is return x + x\n";
      body += "proc apply(func f, val x) is put(f(x), 0)\n";
      preludeCalls.push_back("apply(twice, " + std::to_string(r.below(100)) + ")");
    }
    // main: initialise every global and array element, then act, then exit with a computed value.
    std::vector<std::string> locals;
    std::string ldecl, init;
    int nl = (int)r.below(3);
    for (int l = 0; l < nl; l++) { std::string v = "m" + std::to_string(l); ldecl += "var " + v + "; "; init += v + " := " + num() + "; "; locals.push_back(v); }
    for (int k = 0; k < ng; k++) init += globals[(size_t)k] + " := " + num() + "; ";
    for (size_t a = 0; a < arrays.size(); a++) for (int e = 0; e < arraySize[a]; e++) init += arrays[a] + "[" + std::to_string(e) + "] := " + num() + "; ";
    std::vector<std::string> counters;
    int ns = 1 + (int)r.below(5);
    std::string acts;
    for (int k = 0; k < ns; k++) acts += stmt(locals, counters, 3, false) + "; ";
    for (auto &c : preludeCalls) acts += c + "; ";
    inActual++;
    std::string finExpr = expr(locals, 1);
    inActual--;
    std::string fin = r.chance(3, 4) ? "exit(" + finExpr + ")" : (r.chance(1, 2) ? std::string("stop") : std::string("skip"));
    body += "proc main() is " + ldecl + "{ " + init + acts + fin + " }\n";
    // Declarations come first; loop counters were appended to globals while generating.
    for (auto &g : globals) decls += "var " + g + ";\n";
    if (exoticDecls) decls += "val sz = " + std::to_string(2 + r.below(7)) + ";\n";
    for (size_t a = 0; a < arrays.size(); a++) {
      std::string len = std::to_string(arraySize[a]);
      if (exoticDecls && r.chance(1, 2)) {
        // The same kind of constant expression a reader might write for a length: names, arithmetic,
        // comparisons (true/false as a number), unary operators, brackets.
        static const char *shape[] = {"sz", "sz + 1", "sz - 1", "(sz)", "-(-sz)", "sz >= 2", "sz > 1", "sz <= 9", "sz ~= 0", "sz = sz", "sz < 99", "~(sz = 0)", "#8", "'a'", "sz + sz", "true", "1 + (sz >= 2)"};
        len = shape[r.below(17)];
      }
      decls += "array " + arrays[a] + "[" + len + "];\n";
    }
    decls += bigDecl;
    return decls + body;
  }
};

inline std::string makeX(sim::Rng &r, bool exoticDecls = false) { XGen g(r); g.exoticDecls = exoticDecls; return g.make(); }

// Assembly programs built from I/O, arithmetic, loop and call blocks over labels.
inline std::string makeAsm(sim::Rng &r) {
  // Now and then the very first instruction after reset is not the usual branch but a one-byte store
  // (areg, breg are 0) to a word beyond the image, which the program then reads back and exits with.
  if (r.chance(1, 12)) {
    std::string k = std::to_string(8 + r.below(8));
    return std::string(r.chance(1, 2) ? "STAM " : "STAI ") + k + "\nBR start\nDATA " + std::to_string(150000 + r.below(49000)) + "\nstart\nLDAM " + k +
           "\nLDBM 1\nSTAI 2\nLDAC 0\nOPR SVC\n";
  }
  // One program in twelve keeps its stack above hexsim's 200000 words, inside the 2^19 words of the
  // Verilog memory: only hextb can run it (C13 judges it, C06 and the hexsim harnesses skip it).
  std::string s = "BR start\nDATA " + std::to_string(r.chance(1, 12) ? 200000 + r.below(324000) : 150000 + r.below(49000)) + "\n";
  int nd = 1 + (int)r.below(4);
  for (int k = 0; k < nd; k++) s += "d" + std::to_string(k) + "\nDATA " + std::to_string((int64_t)r.range(-70000, 70000)) + "\n";
  s += "start\n";
  static const int streams[] = {0, 0, 255, 768, 1024, 1536, 1792, 2048};
  static const int instreams[] = {0, 0, 0, 255, 256, 512, 1280, 1300};
  // A long counted loop now and then: the run passes 65 536 instructions.
  if (r.chance(1, 12)) {
    unsigned n = 9500 + (unsigned)r.below(3000);
    s += "LDAC " + std::to_string(n) + "\nSTAM d0\nLl0\nLDAM d0\nBRZ Ll1\nLDBC 1\nOPR SUB\nSTAM d0\nBR Ll0\nLl1\n";
  }
  int nb = 2 + (int)r.below(8), lab = 0;
  auto data = [&]() { return "d" + std::to_string(r.below((uint64_t)nd)); };
  // Now and then the program starts by using the registers as reset left them (all zero): their
  // values reach a data word and standard output before anything has been loaded into them.
  if (r.chance(1, 5)) {
    switch (r.below(6)) {
      case 0: s += "STAM d0\n"; break;
      case 1: s += "OPR ADD\nSTAM d0\n"; break;
      case 2: s += "OPR SUB\nSTAM d0\n"; break;
      case 3: s += "BRZ Lr0\nLDAC 77\nSTAM d0\nLr0\n"; break;
      case 4: s += "LDBI 0\nOPR ADD\nSTAM d0\n"; break;
      default: s += "BRN Lr1\nBR Lr2\nLr1\nLDAC 66\nSTAM d0\nLr2\n"; break;
    }
    s += "LDAM d0\nLDBM 1\nSTAI 2\nLDAC 0\nSTAI 3\nLDAC 1\nOPR SVC\n";
  }
  for (int b = 0; b < nb; b++) {
    switch (r.below(8)) {
      case 6: {         // copy a stream to the console until it reads 255 (end of input)
        std::string l = "L" + std::to_string(lab++), e = "L" + std::to_string(lab++), c = data();
        s += l + "\nLDAC " + std::to_string(instreams[r.below(8)]) + "\nLDBM 1\nSTAI 2\nLDAC 2\nOPR SVC\nLDAM 1\nLDAI 1\nSTAM " + c + "\nLDBC 255\nOPR SUB\nBRZ " + e + "\n";
        s += "LDAM " + c + "\nLDBM 1\nSTAI 2\nLDAC 0\nSTAI 3\nLDAC 1\nOPR SVC\nBR " + l + "\n" + e + "\n";
        break;
      }
      case 0: case 1:   // put a character; sometimes the call is simply repeated (areg and the slots survive it)
        s += "LDAC " + std::to_string(33 + r.below(90)) + "\nLDBM 1\nSTAI 2\nLDAC " + std::to_string(streams[r.below(8)]) + "\nSTAI 3\nLDAC 1\nOPR SVC\n";
        if (r.chance(1, 4)) { int n = 1 + (int)r.below(3); for (int q = 0; q < n; q++) s += "OPR SVC\n"; }
        // The compiler's idiom after every call: load the result slot (never written after a write call)
        // and discard it.  Now and then the next instruction is an LDAP whose full 32-bit result is kept
        // and later printed: whatever areg held before must not show through.
        if (r.chance(1, 3)) {
          s += "LDAM 1\nLDAI 1\n";
          if (r.chance(1, 2)) { std::string l = "L" + std::to_string(lab++); s += "LDAP " + l + "\n" + l + "\nSTAM " + data() + "\n"; }
        }
        break;
      case 2:           // get a character into a data word
        s += "LDAC " + std::to_string(instreams[r.below(8)]) + "\nLDBM 1\nSTAI 2\nLDAC 2\nOPR SVC\n";
        if (r.chance(1, 4)) s += "OPR SVC\n";          // read twice: the second value overwrites the first
        s += "LDAM 1\nLDAI 1\nSTAM " + data() + "\n";
        break;
      case 3:           // arithmetic on data words; now and then a far word written through a computed address and read back through a large immediate index
        if (r.chance(1, 4)) {
          static const unsigned ks[] = {32767, 32768, 40000, 65535, 65536, 70000, 131071, 131072};
          unsigned k = ks[r.below(8)], base = 40000 + (unsigned)r.below(20000);
          s += "LDAC " + std::to_string(r.below(200000)) + "\nLDBC " + std::to_string(base + k) + "\nSTAI 0\n";
          if (r.chance(1, 2)) s += "LDAC " + std::to_string(base) + "\nLDAI " + std::to_string(k) + "\nSTAM " + data() + "\n";
          else s += "LDBC " + std::to_string(base) + "\nLDBI " + std::to_string(k) + "\nLDAC 0\nOPR ADD\nSTAM " + data() + "\n";
          break;
        }
        s += "LDAM " + data() + "\nLDBM " + data() + "\nOPR " + (r.chance(1, 2) ? "ADD" : "SUB") + "\nSTAM " + data() + "\n";
        break;
      case 4: {         // counted loop printing a character
        std::string l = "L" + std::to_string(lab++), e = "L" + std::to_string(lab++), c = data();
        s += "LDAC " + std::to_string(1 + r.below(4)) + "\nSTAM " + c + "\n" + l + "\nLDAM " + c + "\nBRZ " + e + "\nLDBC 1\nOPR SUB\nSTAM " + c + "\n";
        s += "LDAC " + std::to_string(48 + r.below(10)) + "\nLDBM 1\nSTAI 2\nLDAC 0\nSTAI 3\nLDAC 1\nOPR SVC\nBR " + l + "\n" + e + "\n";
        break;
      }
      case 5: {         // branch on sign
        std::string l = "L" + std::to_string(lab++);
        s += "LDAM " + data() + "\nBRN " + l + "\nLDAC " + std::to_string(r.below(200000)) + "\nSTAM " + data() + "\n" + l + "\n";
        break;
      }
      default: {        // call through LDAP/BRB: the callee stores its argument and returns to breg
        std::string f = "L" + std::to_string(lab++), ret = "L" + std::to_string(lab++), over = "L" + std::to_string(lab++), link = data();
        // The callee is a plain label, or a PROC/FUNC directive (which also enters the symbol table);
        // now and then a name is used for two procedures, as after a copy-and-paste.
        std::string decl = f;
        unsigned kind = (unsigned)r.below(3);
        if (kind) {
          f = "fn" + std::to_string(r.chance(1, 8) && lab > 3 ? (unsigned)r.below(3) : (unsigned)lab);
          if (r.chance(1, 8)) { static const unsigned len[] = {24, 27, 28, 29, 30, 31, 32, 33, 64, 255, 300}; f += "_" + std::string(len[r.below(11)], (char)('a' + r.below(26))); }
          decl = std::string(kind == 1 ? "PROC " : "FUNC ") + f;
          if (r.chance(1, 10)) decl = "PROC e" + std::to_string(lab) + "\n" + decl;      // a procedure of size zero in front: two symbols at one offset
        }
        s += "BR " + over + "\n" + decl + "\nSTAM " + data() + "\nOPR BRB\n" + over + "\n";
        s += "LDAP " + ret + "\nSTAM " + link + "\nLDBM " + link + "\nLDAC " + std::to_string(r.below(1000)) + "\nBR " + f + "\n" + ret + "\n";
        break;
      }
    }
  }
  if (r.chance(1, 10)) {
    // The exit stub is written into free memory far above the image and branched to: the last
    // instructions execute outside the loaded image (LDAC v; LDBM 1; STAI 2; LDAC 0 / OPR SVC).
    unsigned v = (unsigned)r.below(16), at = 100000 + (unsigned)r.below(40000);
    uint32_t w0 = (0x30u | v) | (0x11u << 8) | (0x82u << 16) | (0x30u << 24);
    s += "LDAC " + std::to_string(w0) + "\nSTAM " + std::to_string(at) + "\nLDAC 211\nSTAM " + std::to_string(at + 1) + "\nLDBC " + std::to_string(at * 4) + "\nOPR BRB\n";
    return s;
  }
  s += "LDAM " + data() + "\nLDBM 1\nSTAI 2\nLDAC 0\nOPR SVC\n";
  return s;
}

// Programs of an exact size: N directives (labels count) for hexasm, N around the powers of two and
// the other sizes at which containers grow; and X programs of a random number of simple statements.
inline std::string makeSizedAsm(sim::Rng &r) {
  unsigned k = 3 + (unsigned)r.below(10);                  // 8 .. 4096
  long n = (long)(1u << k) + (long)r.range(-2, 2);
  if (r.chance(1, 6)) n = (long)(10 + r.below(1500));
  if (r.chance(1, 10)) n = 3 * (1L << (k > 2 ? k - 2 : 1)) + (long)r.range(-1, 1);   // 1.5 x growth
  if (n < 9) n = 9;
  std::string s = "BR start\nDATA " + std::to_string(150000 + r.below(49000)) + "\nstart\n";     // 3 directives
  long fillers = n - 3 - 5;
  for (long q = 0; q < fillers; q++) {
    switch (r.below(4)) {
      case 0: s += "LDAC " + std::to_string(r.below(70000)) + "\n"; break;
      case 1: s += "LDBC " + std::to_string(r.below(300)) + "\n"; break;
      case 2: s += "OPR ADD\n"; break;
      default: s += "l" + std::to_string(q) + "\n"; break;
    }
  }
  s += "LDAC " + std::to_string(r.below(256)) + "\nLDBM 1\nSTAI 2\nLDAC 0\nOPR SVC\n";                 // 5 directives
  return s;
}
// Assembly with groups of PROC/FUNC declarations that share one byte offset (aliases, procedures of
// size zero): the symbol table has several entries per offset.
inline std::string makeAliasAsm(sim::Rng &r) {
  std::string s = "BR start\nDATA " + std::to_string(150000 + r.below(49000)) + "\nstart\n";
  unsigned groups = 1 + (unsigned)r.below(4), id = 0;
  for (unsigned g = 0; g < groups; g++) {
    unsigned n = 2 + (unsigned)r.below(r.chance(1, 3) ? 30 : 4);
    for (unsigned q = 0; q < n; q++) s += std::string(r.chance(1, 2) ? "PROC " : "FUNC ") + (char)('a' + r.below(26)) + "n" + std::to_string(id++) + "\n";
    unsigned body = (unsigned)r.below(4);
    for (unsigned q = 0; q < body; q++) s += "LDAC " + std::to_string(r.below(300)) + "\n";
  }
  s += "LDAC " + std::to_string(r.below(256)) + "\nLDBM 1\nSTAI 2\nLDAC 0\nOPR SVC\n";
  return s;
}
inline std::string makeSizedX(sim::Rng &r) {
  unsigned a = (unsigned)r.below(r.chance(1, 2) ? 60 : 500), b = (unsigned)r.below(4);
  std::string s = "val put = 1; val exit = 0;\nvar g;\n";
  if (r.chance(1, 5)) { unsigned np = 200 + (unsigned)r.below(200); for (unsigned q = 0; q < np; q++) s += "proc q" + std::to_string(q) + "() is skip\n"; }   // a long symbol table
  s += "proc main() is\n{ g := " + std::to_string(r.below(100));
  for (unsigned q = 0; q < a; q++) s += r.chance(1, 2) ? "; g := " + std::to_string(r.below(50)) : std::string("; g := g + 1");
  for (unsigned q = 0; q < b; q++) s += "; put(g, 0)";
  s += "; exit(g) }\n";
  return s;
}

// Big programs: images of 40 000 - 190 000 words (a constant table behind the code whose last entry
// is the exit value), and X programs whose string constants make up a few hundred kB.
inline std::string makeBigAsm(sim::Rng &r) {
  static const unsigned corner[] = {49990, 50000, 50010, 65530, 65540, 100000, 131072, 150000};
  unsigned n = r.chance(1, 2) ? corner[r.below(8)] + (unsigned)r.below(8) : 40000 + (unsigned)r.below(150000);
  unsigned sp = n + 100 + (unsigned)r.below(199900 - (n + 100));
  unsigned v = (unsigned)r.below(256), fill = (unsigned)r.below(1000);
  std::string s = "BR start\nDATA " + std::to_string(sp) + "\nstart\nLDAM last\nLDBM 1\nSTAI 2\nLDAC 0\nOPR SVC\n";
  std::string line = "DATA " + std::to_string(fill) + "\n";
  s.reserve(s.size() + (size_t)n * line.size() + 32);
  for (unsigned q = 0; q + 1 < n; q++) s += line;
  s += "last\nDATA " + std::to_string(v) + "\n";
  return s;
}
inline std::string makeBigX(sim::Rng &r) {
  unsigned k = 200 + (unsigned)r.below(1300), len = 100 + (unsigned)r.below(150);
  std::string lit(len, (char)('a' + r.below(26)));
  std::string s = "val put = 1; val exit = 0;\nproc strout(array s, val n) is var i; { i := 0; while i < n do { put(s[i], 0); i := i + 1 } }\nproc main() is {\n";
  for (unsigned q = 0; q < k; q++) s += "strout(\"" + lit + "\", " + std::to_string(q % 97 == 0 ? 1 : 0) + ");\n";
  s += "exit(" + std::to_string(r.below(256)) + ") }\n";
  return s;
}

// Any image is a hexasm program: one DATA word per image word.
inline std::string imageAsAsm(const std::string &image) {
  std::string s;
  for (size_t k = 0; k + 3 < image.size(); k += 4) {
    uint32_t w = (uint32_t)(uint8_t)image[k] | ((uint32_t)(uint8_t)image[k + 1] << 8) | ((uint32_t)(uint8_t)image[k + 2] << 16) | ((uint32_t)(uint8_t)image[k + 3] << 24);
    s += "DATA " + std::to_string((int64_t)(int32_t)w) + "\n";
  }
  return s;
}

} // namespace gen
