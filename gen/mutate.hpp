// Token-level mutation of X and assembly sources (workload for C11/C14).  The interesting shapes (a
// `val` initialised from a `var`, a name used before any definition, labels never referenced, huge
// literals) come out of these generic operators, not from a hand-written list.
#pragma once
#include "sim/prng.hpp"
#include <cctype>
#include <string>
#include <vector>

namespace gen {

inline std::vector<std::string> tokenize(const std::string &s) {
  std::vector<std::string> t;
  size_t i = 0;
  while (i < s.size()) {
    unsigned char c = (unsigned char)s[i];
    if (std::isspace(c)) { size_t j = i; while (j < s.size() && std::isspace((unsigned char)s[j])) j++; t.push_back(s.substr(i, j - i)); i = j; }
    else if (std::isalpha(c)) { size_t j = i; while (j < s.size() && (std::isalnum((unsigned char)s[j]) || s[j] == '_')) j++; t.push_back(s.substr(i, j - i)); i = j; }
    else if (std::isdigit(c) || c == '#') { size_t j = i + 1; while (j < s.size() && std::isalnum((unsigned char)s[j])) j++; t.push_back(s.substr(i, j - i)); i = j; }
    else if (c == '"') { size_t j = i + 1; while (j < s.size() && s[j] != '"') { if (s[j] == '\\') j++; j++; } if (j < s.size()) j++; t.push_back(s.substr(i, j - i)); i = j; }
    else if (c == '\'') { size_t j = i + 1; while (j < s.size() && s[j] != '\'') { if (s[j] == '\\') j++; j++; } if (j < s.size()) j++; t.push_back(s.substr(i, j - i)); i = j; }
    else if ((c == ':' || c == '<' || c == '>' || c == '~') && i + 1 < s.size() && s[i + 1] == '=') { t.push_back(s.substr(i, 2)); i += 2; }
    else { t.push_back(std::string(1, (char)c)); i++; }
  }
  return t;
}

inline bool isIdent(const std::string &t) { return !t.empty() && std::isalpha((unsigned char)t[0]); }
inline bool isNumber(const std::string &t) { return !t.empty() && (std::isdigit((unsigned char)t[0]) || t[0] == '#'); }
inline bool isSpace(const std::string &t) { return !t.empty() && std::isspace((unsigned char)t[0]); }

// Byte-level noise: the bytes a text editor never produces but a file can hold (NUL, 0xFF, DEL, ^Z,
// CR, form feed), inserted, replacing a byte, or following a complete program; or the file ends at an
// arbitrary byte.
// Not 0xFF in X sources: xcmp's lexer holds the character in a `char` and compares it with EOF, so a
// 0xFF byte ends the program there; reading from a file it then closes the stream, reading from a
// buffer it carries on lexing behind the end-of-file token.  The two entry points legitimately differ
// on such a source, so the library cannot serve as the reference for the executable (DESIGN.md 7.3).
inline std::string byteNoise(sim::Rng &r, const std::string &src, bool isX) {
  static const unsigned char odd[] = {0x00, 0x00, 0x00, 0xFF, 0xFF, 0x80, 0x1A, 0x0D, 0x7F, 0x01, 0x0C, 0x0B, 0xC3};
  std::string s = src;
  unsigned char b = odd[r.below(sizeof odd)];
  if (isX && b == 0xFF) b = 0xFE;
  switch (r.below(10)) {
    case 6: { std::string t; for (char c : s) { if (c == '\n') t += "\r\n"; else t.push_back(c); } return t; }   // CR LF line ends
    case 7: { for (char &c : s) if (c == ' ') c = '\t'; return s; }                                               // tabs for blanks
    case 8: { while (!s.empty() && (s.back() == '\n' || s.back() == ' ')) s.pop_back(); return s; }               // last line without a newline
    case 9: return r.chance(1, 2) ? std::string() : std::string((size_t)r.below(4), '\n');                        // an empty file
    case 0: s.insert(s.begin() + (long)r.below(s.size() + 1), (char)b); break;                 // anywhere
    case 1: s.push_back((char)b); if (r.chance(1, 2)) s += "junk ("; break;                     // after the last byte
    case 2: { size_t nl = s.rfind('\n', s.size() > 1 ? s.size() - 2 : 0);                      // start of the last line
              s.insert(nl == std::string::npos ? 0 : nl + 1, 1, (char)b); break; }
    case 3: if (!s.empty()) s[r.below(s.size())] = (char)b; break;                             // replaces a byte
    case 4: { size_t h = s.find(r.chance(1, 2) ? '#' : '|');                                   // inside a comment, if there is one
              s.insert(h == std::string::npos ? (size_t)r.below(s.size() + 1) : h + 1, 1, (char)b); break; }
    default: s.resize((size_t)r.below(s.size() + 1)); break;                                   // file ends early
  }
  return s;
}

inline std::string mutateSource(sim::Rng &r, const std::string &src, bool isX, int maxEdits = 3) {
  std::vector<std::string> t = tokenize(src);
  if (t.empty()) return src;
  std::vector<size_t> idents, numbers, solid;
  auto reindex = [&]() {
    idents.clear(); numbers.clear(); solid.clear();
    for (size_t k = 0; k < t.size(); k++) {
      if (isSpace(t[k])) continue;
      solid.push_back(k);
      if (isIdent(t[k])) idents.push_back(k);
      if (isNumber(t[k])) numbers.push_back(k);
    }
  };
  static const char *xkw[] = {"val", "var", "array", "proc", "func", "is", "if", "then", "else", "while", "do", "skip", "stop", "return", "and", "or", "true", "false"};
  static const char *akw[] = {"LDAM", "LDBM", "STAM", "LDAC", "LDBC", "LDAP", "LDAI", "LDBI", "STAI", "BR", "BRZ", "BRN", "OPR", "ADD", "SUB", "SVC", "BRB", "DATA", "PROC", "FUNC"};
  static const char *nums[] = {"0", "1", "2", "3", "15", "16", "255", "256", "65535", "65536", "2147483647", "2147483648", "4294967295", "4294967296", "99999999999", "#FFFFFFFF", "#0",
                               "18446744073709551615", "18446744073709551616", "99999999999999999999999", "#FFFFFFFFFFFFFFFFF"};
  int edits = 1 + (int)r.below((uint64_t)maxEdits);
  for (int e = 0; e < edits; e++) {
    reindex();
    if (solid.empty()) break;
    switch (r.below(9)) {
      case 0: t.erase(t.begin() + (long)solid[r.below(solid.size())]); break;                                   // delete a token
      case 1: { size_t k = solid[r.below(solid.size())]; t.insert(t.begin() + (long)k, t[k] + " "); break; }     // duplicate
      case 2: if (solid.size() > 1) { size_t a = (size_t)r.below(solid.size() - 1); std::swap(t[solid[a]], t[solid[a + 1]]); } break;   // swap neighbours
      case 3: if (idents.size() > 1) t[idents[r.below(idents.size())]] = t[idents[r.below(idents.size())]]; break;                     // identifier := another identifier
      case 4: if (!numbers.empty()) t[numbers[r.below(numbers.size())]] = nums[r.below(sizeof nums / sizeof nums[0])]; break;          // corner literal
      case 5: if (!numbers.empty() && !idents.empty()) t[numbers[r.below(numbers.size())]] = t[idents[r.below(idents.size())]]; break; // literal := identifier
      case 6: if (!idents.empty()) t[idents[r.below(idents.size())]] = isX ? xkw[r.below(sizeof xkw / sizeof xkw[0])] : akw[r.below(sizeof akw / sizeof akw[0])]; break;
      case 7: if (solid.size() > 2) {                                                                            // move a statement-sized chunk
          size_t a = (size_t)r.below(solid.size()), len = 1 + (size_t)r.below(6);
          size_t from = solid[a], to = std::min(t.size(), from + len * 2);
          std::vector<std::string> chunk(t.begin() + (long)from, t.begin() + (long)to);
          t.erase(t.begin() + (long)from, t.begin() + (long)to);
          size_t at = (size_t)r.below(t.size() + 1);
          t.insert(t.begin() + (long)at, chunk.begin(), chunk.end());
        } break;
      default: if (!idents.empty()) t[idents[r.below(idents.size())]] += std::to_string(r.below(3)); break;     // rename (maybe to an undefined name)
    }
  }
  std::string out;
  for (auto &x : t) out += x;
  if (r.chance(1, 6)) out = byteNoise(r, out, isX);
  return out;
}

} // namespace gen
