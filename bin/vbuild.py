"""Content-addressed build of the verification harnesses from /repo's *working tree* and /verif.

Every artefact (verilated model directory, object file, executable) is keyed by a hash of its
command line and of the bytes of every file it depends on, so a changed source in /repo or /verif
gives a new artefact and an unchanged one is reused.  Old artefacts are pruned by age of last use.
"""
import hashlib, os, subprocess, sys, time, glob, shutil, concurrent.futures as cf

VERIF = os.path.dirname(os.path.dirname(os.path.abspath(__file__)))
REPO = os.environ.get("VERIF_REPO", "/repo")
BUILD = os.path.join(VERIF, "build")
VROOT = "/usr/share/verilator"
CXX = os.environ.get("VERIF_CXX", "g++")
SAN = os.environ.get("VERIF_SAN", "")          # "asan" selects the sanitizer build
JOBS = int(os.environ.get("VERIF_JOBS", "16"))
COV = os.environ.get("VERIF_COV", "") == "1"   # gcov instrumentation of the /repo sources (bin/reach)

BASE_FLAGS = ["-std=c++17", "-DNDEBUG", "-DHEX_VERIF", "-I" + REPO, "-I" + VERIF,
              "-I" + VROOT + "/include", "-I" + VROOT + "/include/vltstd",
              "-DVM_COVERAGE=0", "-DVM_SC=0", "-DVM_TRACE_FST=0",
              "-Wno-unused", "-w", "-fno-omit-frame-pointer"]
if SAN == "asan":
    BASE_FLAGS += ["-fsanitize=address,undefined", "-fno-sanitize-recover=undefined", "-O1", "-g"]
    LINK_SAN = ["-fsanitize=address,undefined"]
else:
    LINK_SAN = []
if COV:
    BASE_FLAGS += ["--coverage", "-DVERIF_COV"]
    LINK_SAN += ["--coverage"]

def sha(*parts):
    h = hashlib.sha256()
    for p in parts:
        if isinstance(p, str):
            p = p.encode()
        h.update(p)
        h.update(b"\0")
    return h.hexdigest()[:20]

_file_cache = {}
def fhash(path):
    if path not in _file_cache:
        with open(path, "rb") as f:
            _file_cache[path] = hashlib.sha256(f.read()).hexdigest()
    return _file_cache[path]

def files_hash(paths):
    return sha(*[p + ":" + fhash(p) for p in sorted(paths)])

def repo_headers():
    return sorted(glob.glob(REPO + "/*.hpp"))

def verif_headers():
    r = []
    for d in ("sim", "model", "gen", "harness"):
        r += glob.glob(os.path.join(VERIF, d, "*.hpp"))
    return sorted(r)

def touch(path):
    try:
        os.utime(path, None)
    except OSError:
        pass

def run(cmd, quiet=False, **kw):
    r = subprocess.run(cmd, stdout=subprocess.PIPE, stderr=subprocess.STDOUT, text=True, **kw)
    if r.returncode != 0:
        if not quiet:
            sys.stderr.write("BUILD FAILED: " + " ".join(cmd) + "\n" + r.stdout[-6000:] + "\n")
        raise SystemExit(3)
    return r.stdout

# ---------------------------------------------------------------------------------------------
# Verilated models
# ---------------------------------------------------------------------------------------------
MODELS = {
    # name: (prefix, sources relative to REPO, extra verilator flags)
    "sv":    ("Vsv", ["verilog/hex_pkg.sv", "verilog/hex.sv", "verilog/processor.sv", "verilog/memory.sv"],
              ["-fno-inline"]),
    "v":     ("Vv",  ["verilog/hex_pkg.sv", "verilog/hex.sv", "verilog/processor.v", "verilog/memory.sv"],
              ["-fno-inline", "-Wno-WIDTH", "-Wno-fatal"]),
    "synth": ("Vsy", ["verilog/hex_pkg.sv", "verilog/hex.sv", "synth/processor.v", "verilog/memory.sv"],
              ["-fno-inline", "-Wno-WIDTH", "-Wno-fatal"]),
    # The model hextb.cpp is written against: flags of CMakeLists.txt (TRACE, --top-module hex) plus
    # --public-flat-rw so that the harness can read and plant areg/breg/oreg.
    "tb":    ("Vhex_pkg", ["verilog/hex_pkg.sv", "verilog/hex.sv", "verilog/processor.sv", "verilog/memory.sv"],
              ["--trace"]),
}

def model_dir(name):
    prefix, srcs, extra = MODELS[name]
    srcs = [os.path.join(REPO, s) for s in srcs]
    cmd = ["verilator", "--cc", "--public-flat-rw", "--top-module", "hex", "--prefix", prefix] + extra
    key = sha("verilate", " ".join(cmd), files_hash(srcs), SAN)
    d = os.path.join(BUILD, "model-%s-%s" % (name, key))
    stamp = os.path.join(d, ".done")
    if not os.path.exists(stamp):
        shutil.rmtree(d, ignore_errors=True)
        os.makedirs(d)
        run(cmd + ["-Mdir", d] + srcs)
        open(stamp, "w").write("ok")
    touch(stamp)
    return d

def compile_obj(src, flags, deps, opt="-O2"):
    """Compile one translation unit; returns the object path."""
    cmd = [CXX] + BASE_FLAGS + ([opt] if SAN != "asan" else []) + flags + ["-c", src]
    key = sha("cc", " ".join(cmd), files_hash([src] + deps))
    obj = os.path.join(BUILD, "obj", key + ".o")
    return obj, cmd

class Builder:
    def __init__(self):
        os.makedirs(os.path.join(BUILD, "obj"), exist_ok=True)
        os.makedirs(os.path.join(BUILD, "bin"), exist_ok=True)
        self.jobs = []       # (obj, cmd)
        self.seen = set()

    def obj(self, src, flags=(), deps=(), opt="-O2"):
        obj, cmd = compile_obj(src, list(flags), list(deps), opt)
        if obj not in self.seen:
            self.seen.add(obj)
            if os.path.exists(obj):
                touch(obj)
            else:
                self.jobs.append((obj, cmd))
        return obj

    def flush(self):
        if not self.jobs:
            return
        def one(job):
            obj, cmd = job
            tmp = obj + ".tmp%d" % os.getpid()
            run(cmd + ["-o", tmp])
            os.replace(tmp, obj)
        with cf.ThreadPoolExecutor(max_workers=JOBS) as ex:
            list(ex.map(one, self.jobs))
        self.jobs = []

    def model_objs(self, name):
        d = model_dir(name)
        hdrs = sorted(glob.glob(d + "/*.h"))
        objs = []
        for src in sorted(glob.glob(d + "/*.cpp")):
            slow = "__Slow" in src or "__Syms" in src
            objs.append(self.obj(src, ["-I" + d], hdrs, "-O0" if slow else "-O2"))
        return d, objs

    def verilated_runtime(self, trace=False):
        srcs = ["verilated.cpp", "verilated_threads.cpp"] + (["verilated_vcd_c.cpp"] if trace else [])
        return [self.obj(os.path.join(VROOT, "include", s), [], [], "-O1") for s in srcs]

    def link(self, name, objs, libs=(), quiet=False):
        self.flush()
        key = sha("link", name, " ".join(sorted(objs)), " ".join(libs), SAN, "cov" if COV else "")
        exe = os.path.join(BUILD, "bin", "%s-%s" % (name, key))
        if not os.path.exists(exe):
            tmp = exe + ".tmp%d" % os.getpid()
            run([CXX] + LINK_SAN + ["-o", tmp] + objs + ["-Wl,--wrap=exit", "-ldl", "-pthread"] + list(libs), quiet=quiet)
            os.replace(tmp, exe)
        touch(exe)
        return exe

def prune(max_age_days=2.0, keep_min=400):
    """Remove artefacts not used for a while (bounded disk use)."""
    now = time.time()
    for sub in ("obj", "bin"):
        d = os.path.join(BUILD, sub)
        if not os.path.isdir(d):
            continue
        ents = [(os.path.getmtime(os.path.join(d, f)), os.path.join(d, f)) for f in os.listdir(d)]
        ents.sort(reverse=True)
        for n, (mt, p) in enumerate(ents):
            if n >= keep_min and now - mt > max_age_days * 86400:
                try:
                    os.remove(p)
                except OSError:
                    pass
    for d in glob.glob(os.path.join(BUILD, "model-*")) + glob.glob(os.path.join(BUILD, "realtools-*")):
        st = os.path.join(d, ".done")
        if not os.path.exists(st) or now - os.path.getmtime(st) > max_age_days * 86400:
            shutil.rmtree(d, ignore_errors=True)

# ---------------------------------------------------------------------------------------------
# Harness executables
# ---------------------------------------------------------------------------------------------
def H(name):
    return os.path.join(VERIF, "harness", name)

def build_harness(which):
    b = Builder()
    rh, vh = repo_headers(), verif_headers()
    host = b.obj(os.path.join(VERIF, "sim", "host.cpp"), [], vh)
    hexo = b.obj(os.path.join(REPO, "hex.cpp"), [], rh)
    if which == "lockstep":
        objs, incs, mh = [], [], []
        for m in ("sv", "v", "synth"):
            d, o = b.model_objs(m)
            objs += o
            incs.append("-I" + d)
            mh += sorted(glob.glob(d + "/*.h"))
        main = b.obj(H("lockstep.cpp"), incs, rh + vh + mh)
        return b.link("lockstep", [main, host, hexo] + objs + b.verilated_runtime())
    if which == "mkcorpus":
        main = b.obj(H("mkcorpus.cpp"), [], rh + vh, "-O1")
        return b.link("mkcorpus", [main, host, hexo])
    if which == "tbsim":
        d, mo = b.model_objs("tb")
        mh = sorted(glob.glob(d + "/*.h"))
        tb = b.obj(os.path.join(REPO, "hextb.cpp"), ["-I" + d, "-Dmain=hextb_main"], rh + mh, "-O1")
        sim = b.obj(os.path.join(REPO, "hexsim.cpp"), ["-Dmain=hexsim_main"], rh, "-O1")
        main = b.obj(H("tbsim.cpp"), ["-I" + d], rh + vh + mh, "-O1")
        try:
            return b.link("tbsim", [main, tb, sim, host, hexo] + mo + b.verilated_runtime(trace=True), quiet=True)
        except SystemExit:
            # hextb.cpp's load()/run() no longer have the signatures the planted runs call: go through main() only.
            sys.stderr.write("NOTE: tbsim does not link against this tree's hextb.cpp internals (load/run signature changed?); "
                             "planted power-on states fall back to seeds through main()\n")
            main = b.obj(H("tbsim.cpp"), ["-I" + d, "-DTBSIM_NO_PLANT"], rh + vh + mh, "-O1")
            return b.link("tbsim", [main, tb, sim, host, hexo] + mo + b.verilated_runtime(trace=True))
    if which in ("hostsim", "toolsim"):
        tools = [
            b.obj(os.path.join(REPO, "hexsim.cpp"), ["-Dmain=hexsim_main"], rh, "-O1"),
            b.obj(os.path.join(REPO, "hexasm.cpp"), ["-Dmain=hexasm_main"], rh, "-O1"),
            b.obj(os.path.join(REPO, "xcmp.cpp"), ["-Dmain=xcmp_main"], rh, "-O1"),
            b.obj(os.path.join(REPO, "xrun.cpp"), ["-Dmain=xrun_main"], rh, "-O1"),
        ]
        main = b.obj(H(which + ".cpp"), [], rh + vh, "-O1")
        return b.link(which, [main, host, hexo] + tools)
    if which == "realhextb":
        # hextb as the repository builds it (guard off, real main) on the tb model, for the C06 second layer.
        d, mo = b.model_objs("tb")
        mh = sorted(glob.glob(d + "/*.h"))
        flags = [f for f in BASE_FLAGS if f not in ("-DHEX_VERIF", "--coverage", "-DVERIF_COV")]
        cmd = [CXX] + flags + ["-O1", "-I" + d, "-c", os.path.join(REPO, "hextb.cpp")]
        key = sha("cc-real", " ".join(cmd), files_hash([os.path.join(REPO, "hextb.cpp")] + rh + mh))
        obj = os.path.join(BUILD, "obj", key + ".o")
        if not os.path.exists(obj):
            b.flush()
            run(cmd + ["-o", obj])
        touch(obj)
        hexreal = os.path.join(BUILD, "obj", sha("cc-real-hex", files_hash([os.path.join(REPO, "hex.cpp")] + rh)) + ".o")
        if not os.path.exists(hexreal):
            run([CXX] + flags + ["-O1", "-c", os.path.join(REPO, "hex.cpp"), "-o", hexreal])
        touch(hexreal)
        rt = b.verilated_runtime(trace=True)
        b.flush()
        objs = [obj, hexreal] + mo + rt
        keyl = sha("link-real", "hextb", " ".join(sorted(objs)))
        exe = os.path.join(BUILD, "bin", "realhextb-" + keyl)
        if not os.path.exists(exe):
            run([CXX] + LINK_SAN + ["-o", exe] + objs + ["-pthread"])
        touch(exe)
        return exe
    if which == "realtools":
        # The four executables as the repository builds them (guard off, real main), for the
        # second-layer cross-checks of C14/C11.  Returns the directory holding them.
        flags = [f for f in BASE_FLAGS if f not in ("-DHEX_VERIF", "--coverage", "-DVERIF_COV")]
        outdir_key = sha("realtools", files_hash(rh + [os.path.join(REPO, t + ".cpp") for t in ("hexasm", "xcmp", "xrun", "hexsim", "hex")]))
        outdir = os.path.join(BUILD, "realtools-" + outdir_key)
        if not os.path.exists(os.path.join(outdir, ".done")):
            os.makedirs(outdir, exist_ok=True)
            def one(t):
                run([CXX] + flags + ["-O1", "-o", os.path.join(outdir, t), os.path.join(REPO, t + ".cpp"), os.path.join(REPO, "hex.cpp")])
            with cf.ThreadPoolExecutor(max_workers=4) as ex:
                list(ex.map(one, ["hexasm", "xcmp", "xrun", "hexsim"]))
            open(os.path.join(outdir, ".done"), "w").write("ok")
        touch(os.path.join(outdir, ".done"))
        return outdir
    raise SystemExit("unknown harness " + which)

if __name__ == "__main__":
    for w in sys.argv[1:]:
        print(build_harness(w))
